#!/bin/bash
# Offline setup: third-party helper packages next to the repo's interpreter + reference self-tests.
set -e
cd "$(dirname "$0")"
if [ ! -d .deps/icontract ] || [ ! -d .deps/jsonschema ]; then
  /venv/bin/pip install -q --no-index --find-links /opt/veriftools/wheels --target .deps icontract deal jsonschema >/dev/null 2>&1 || {
    echo "setup: offline install of icontract/deal/jsonschema failed" >&2; exit 1; }
fi
if [ "$1" != "--no-selftest" ]; then
  /venv/bin/python -m picomon.selftest
fi
