"""Adversarial document grammar for C17."""
import random
import re

from picomon.gen import docs as gd

HDR = '<svg xmlns="http://www.w3.org/2000/svg" xmlns:xlink="http://www.w3.org/1999/xlink" viewBox="0 0 100 100">'
RECT = '<rect x="{x}" y="{y}" width="20" height="20" fill="{c}"/>'


def _rect(rng, extra="", fill=None):
    return f'<rect x="{rng.randint(0, 60)}" y="{rng.randint(0, 60)}" width="{rng.randint(5, 30)}" height="{rng.randint(5, 30)}" fill="{fill or rng.choice(gd.PALETTE)}"{extra}/>'


def use_cycle(rng):
    n = rng.randint(1, 4)
    fan = rng.choice((1, 1, 2))
    style = rng.random()
    if n == 1 and style < 0.5:
        return HDR + '<use id="a" xlink:href="#a"/>' + _rect(rng) + "</svg>", "use_self"
    if style < 0.3:
        # use inside its own target
        return HDR + f'<g id="g0">{_rect(rng)}<g><use xlink:href="#g0" x="5"/></g></g></svg>', "use_inside_own_target"
    parts = []
    for i in range(n):
        uses = "".join(f'<use xlink:href="#g{(i + 1) % n}" x="{k}"/>' for k in range(fan))
        parts.append(f'<g id="g{i}">{_rect(rng)}{uses}</g>')
    label = f"use_cycle_{n}_fan{fan}"
    if rng.random() < 0.25:
        # white space around the fragment: whether such a reference resolves is the implementation's business,
        # but every part of it must agree
        ws = rng.choice((" ", "\n", "\t"))
        i = rng.randrange(len(parts))
        parts[i] = parts[i].replace('xlink:href="#g', 'xlink:href="#' + rng.choice(("", ws)) + "g", 1)
        parts[i] = re.sub(r'(xlink:href="#\s?g\d+)"', lambda m: m.group(1) + ws + '"', parts[i], count=1)
        label += "_ws"
    k = rng.random()
    if k < 0.45:
        # something with an id that is NOT part of the cycle leads into it - before, inside or after
        # the cycle's elements in document order
        tgt = rng.randrange(n)
        entry = rng.choice((f'<g id="icon">{_rect(rng)}<use xlink:href="#g{tgt}"/></g>', f'<use id="e0" xlink:href="#g{tgt}"/>',
                            f'<g id="e1"><g><use xlink:href="#g{tgt}" x="2"/></g></g>'))
        parts.insert(rng.choice((0, 0, len(parts) // 2, len(parts))), entry)
        label += "_entry"
    body = "".join(parts)
    if 0.45 <= k < 0.6:
        # the whole cycle sits inside an ancestor that has an id of its own
        body = f'<g id="wrap">{body}</g>'
        label += "_wrapped"
    if rng.random() < 0.5:
        body = f"<defs>{body}</defs>" + '<use xlink:href="#g0"/>'
    return HDR + body + "</svg>", label


def clip_cycle(rng):
    n = rng.randint(1, 4)
    k = rng.random()
    if k < 0.3:
        # clipPath containing a use of the clipped element
        return (HDR + f'<defs><clipPath id="c0"><use xlink:href="#r"/></clipPath></defs><rect id="r" x="5" y="5" width="40" height="40" clip-path="url(#c0)"/></svg>',
                "clip_uses_clipped_element")
    cps = "".join(f'<clipPath id="c{i}" clip-path="url(#c{(i + 1) % n})">{_rect(rng)}</clipPath>' for i in range(n))
    return HDR + f"<defs>{cps}</defs>" + _rect(rng, ' clip-path="url(#c0)"') + "</svg>", f"clip_cycle_{n}"


def gradient_cycle(rng):
    n = rng.randint(1, 4)
    k = rng.random()
    if k < 0.2:
        return (HDR + f'<defs><linearGradient id="g0" xlink:href="#r"/></defs><rect id="r" x="1" y="1" width="30" height="30" fill="url(#g0)"/></svg>', "gradient_href_non_gradient")
    order = list(range(n))
    rng.shuffle(order)
    gs = {}
    for i in range(n):
        gs[i] = f'<linearGradient id="g{i}" xlink:href="#g{(i + 1) % n}">' + ('<stop offset="0" stop-color="red"/>' if rng.random() < 0.5 else "") + "</linearGradient>"
    entry = ""
    if rng.random() < 0.6:
        # a chain that leads INTO a cycle from outside, in either document order
        tgt = rng.randrange(n)
        entry = f'<linearGradient id="e0" xlink:href="#g{tgt}"/>'
        if rng.random() < 0.5:
            entry = f'<linearGradient id="e1" xlink:href="#e0"/>' + entry
    seq = [gs[i] for i in order]
    pos = rng.choice(("first", "last", "middle"))
    if pos == "first":
        seq = [entry] + seq
    elif pos == "last":
        seq = seq + [entry]
    else:
        seq.insert(len(seq) // 2, entry)
    fill = rng.choice(["g0"] + (["e0"] if entry else []) + (["e1"] if "e1" in entry else []))
    tf = ' transform="translate(3 4)"' if rng.random() < 0.5 else ""
    return HDR + "<defs>" + "".join(seq) + "</defs>" + _rect(rng, tf, fill=f"url(#{fill})") + "</svg>", f"gradient_cycle_{n}" + ("_entry" if entry else "")


def dangling(rng):
    k = rng.choice(("use", "clip", "fill", "href", "use_external", "clip_to_rect"))
    if k == "use":
        return HDR + '<use xlink:href="#nope"/>' + _rect(rng) + "</svg>", "dangling_use"
    if k == "clip":
        return HDR + _rect(rng, ' clip-path="url(#nope)"') + "</svg>", "dangling_clip"
    if k == "fill":
        return HDR + '<rect x="1" y="1" width="10" height="10" fill="url(#nope)" transform="scale(2)"/>' + "</svg>", "dangling_fill"
    if k == "href":
        return HDR + '<defs><linearGradient id="a" xlink:href="#nope"/></defs><rect width="10" height="10" fill="url(#a)"/></svg>', "dangling_gradient_href"
    if k == "use_external":
        return HDR + '<use xlink:href="other.svg#x"/></svg>', "external_use"
    return HDR + '<rect id="r" width="5" height="5"/><rect width="10" height="10" clip-path="url(#r)"/></svg>', "clip_path_to_non_clippath"


def malformed(rng):
    bad = rng.choice(("abc", "", " ", "1px", "50%", "1e", "--1", "1,2", "NaN", "inf", "1e999", "0x10", "١٢"))
    tag, attr = rng.choice((("rect", "width"), ("rect", "x"), ("circle", "r"), ("rect", "opacity"), ("rect", "stroke-width"), ("g", "opacity"), ("rect", "transform"),
                            ("path", "d"), ("polygon", "points"), ("svg", "viewBox"), ("rect", "fill-opacity"), ("rect", "stroke-dasharray"), ("use", "x"),
                            ("linearGradient", "x1"), ("stop", "offset"), ("rect", "stroke-miterlimit"), ("rect", "rx")))
    if tag == "svg":
        return f'<svg xmlns="http://www.w3.org/2000/svg" viewBox="{bad}"><rect width="5" height="5"/></svg>', "malformed_viewBox"
    if tag == "g":
        return HDR + f'<g opacity="{bad}">{_rect(rng)}{_rect(rng)}</g></svg>', "malformed_g_opacity"
    if tag == "use":
        return HDR + f'<rect id="r" width="5" height="5"/><use xlink:href="#r" x="{bad}"/></svg>', "malformed_use_x"
    if tag in ("linearGradient", "stop"):
        a1 = f' x1="{bad}"' if tag == "linearGradient" else ""
        a2 = bad if tag == "stop" else "0"
        return HDR + f'<defs><linearGradient id="a"{a1}><stop offset="{a2}" stop-color="red"/></linearGradient></defs><rect width="10" height="10" fill="url(#a)" transform="scale(2)"/></svg>', f"malformed_{tag}"
    base = {"rect": 'width="10" height="10"', "circle": 'r="5"', "path": 'd="M0,0 L5,5 L5,0 Z"', "polygon": 'points="0,0 5,5 5,0"'}[tag]
    stroke = ' stroke="red"' if attr.startswith("stroke") else ""
    return HDR + f'<{tag} {base} {attr}="{bad}"{stroke}/>' + "</svg>", f"malformed_{tag}_{attr}"


def deep(rng):
    n = rng.choice((50, 200, 400))
    return HDR + "<g>" * n + _rect(rng) + "</g>" * n + "</svg>", f"deep_{n}"


def wide_dag(rng):
    """Acyclic use DAG with fan-out: a legitimately large expansion."""
    levels = rng.randint(2, 5)
    fan = rng.randint(2, 3)
    parts = [f'<g id="l0">{_rect(rng)}</g>']
    for i in range(1, levels + 1):
        uses = "".join(f'<use xlink:href="#l{i - 1}" x="{3 * k}" y="{2 * k}"/>' for k in range(fan))
        parts.append(f'<g id="l{i}">{uses}</g>')
    return HDR + "<defs>" + "".join(parts) + "</defs>" + f'<use xlink:href="#l{levels}"/>' + "</svg>", f"wide_dag_{levels}x{fan}"


def entities(rng, canary_dir):
    k = rng.choice(("internal", "laughs", "external_general", "external_parameter", "external_http", "external_in_attr", "in_content", "in_content"))
    if k == "in_content":
        # an entity reference directly in <svg> / <g> content (not inside title/text)
        ent = rng.choice(('<!ENTITY e "x">', f'<!ENTITY e SYSTEM "file://{canary_dir}/secret.txt">', '<!ENTITY e "<rect width=\'3\' height=\'3\'/>">'))
        where = rng.choice(("svg", "g", "g2"))
        body = {"svg": "&e;" + _rect(rng), "g": f"<g>&e;{_rect(rng)}</g>", "g2": f'<g opacity="0.5">{_rect(rng)}&e;{_rect(rng)}</g>'}[where]
        return f'<?xml version="1.0"?><!DOCTYPE svg [{ent}]>{HDR}{body}</svg>', "entity_in_content_" + where
    if k == "internal":
        return f'<?xml version="1.0"?><!DOCTYPE svg [<!ENTITY c "red">]>{HDR}<rect width="10" height="10" fill="&c;"/></svg>', "entity_internal"
    if k == "laughs":
        n = rng.randint(3, 6)
        ents = '<!ENTITY l0 "ha">' + "".join(f'<!ENTITY l{i} "{("&l%d;" % (i - 1)) * 8}">' for i in range(1, n))
        return f'<?xml version="1.0"?><!DOCTYPE svg [{ents}]>{HDR}<title>&l{n - 1};</title><rect width="10" height="10"/></svg>', f"entity_laughs_{n}"
    if k == "external_general":
        return (f'<?xml version="1.0"?><!DOCTYPE svg [<!ENTITY xxe SYSTEM "file://{canary_dir}/secret.txt">]>{HDR}<title>&xxe;</title><text>&xxe;</text><rect width="10" height="10"/></svg>',
                "entity_external_general")
    if k == "external_parameter":
        return (f'<?xml version="1.0"?><!DOCTYPE svg [<!ENTITY % p SYSTEM "file://{canary_dir}/param.dtd"> %p;]>{HDR}<rect width="10" height="10"/></svg>', "entity_external_parameter")
    if k == "external_http":
        return (f'<?xml version="1.0"?><!DOCTYPE svg [<!ENTITY xxe SYSTEM "http://127.0.0.1:9/secret">]>{HDR}<title>&xxe;</title><rect width="10" height="10"/></svg>', "entity_external_http")
    return (f'<?xml version="1.0"?><!DOCTYPE svg SYSTEM "file://{canary_dir}/doc.dtd" [<!ENTITY xxe SYSTEM "file://{canary_dir}/secret.txt">]>{HDR}<rect width="10" height="10"><desc>&xxe;</desc></rect></svg>',
            "entity_external_doctype")


def unsupported(rng):
    g = gd.Gen(rng)
    n = gd.unsupported_node(g, rng)
    return HDR + gd.to_xml(n) + _rect(rng) + "</svg>", "unsupported_" + n.tag


def enumerated_cycles():
    """Every small reference-cycle layout, deterministically (the random classes above sample the same
    space with geometry and noise around it): -> list of (document, label)."""
    import random as _r

    out = []
    rect = '<rect x="5" y="5" width="20" height="10" fill="navy"/>'
    # gradient href cycles: length x entry chain (none / one / two links) x where the entry is declared x who is painted with
    for n in (1, 2, 3):
        gs = [f'<linearGradient id="g{i}" xlink:href="#g{(i + 1) % n}">' + ('<stop offset="0" stop-color="red"/>' if i % 2 == 0 else "") + "</linearGradient>" for i in range(n)]
        for entry in ("", "e0", "e1"):
            for pos in (("first", "last", "middle") if entry else ("none",)):
                e = ""
                if entry:
                    e = f'<linearGradient id="e0" xlink:href="#g{n - 1}"/>'
                    if entry == "e1":
                        e = '<linearGradient id="e1" xlink:href="#e0"/>' + e if pos != "last" else e + '<linearGradient id="e1" xlink:href="#e0"/>'
                seq = list(gs)
                if pos == "first":
                    seq = [e] + seq
                elif pos == "last":
                    seq = seq + [e]
                elif pos == "middle":
                    seq.insert(max(1, len(seq) // 2), e)
                for fill in (("g0",) if not entry else ("g0", entry)):
                    for tf in ("", ' transform="translate(3 4)"'):
                        out.append((HDR + "<defs>" + "".join(seq) + "</defs>" + f'<rect x="5" y="5" width="30" height="20"{tf} fill="url(#{fill})"/></svg>',
                                    f"gradient_cycle_{n}_enum_{entry or 'noentry'}_{pos}_{fill}"))
    # use cycles: length x what leads into the cycle x white space in one href
    for n in (1, 2, 3):
        for entry in ("none", "icon_first", "icon_last", "use_first", "wrapped"):
            for ws in ("", " "):
                parts = [f'<g id="g{i}">{rect}<use xlink:href="#g{(i + 1) % n}{ws if i == 0 else ""}" x="{i}"/></g>' for i in range(n)]
                icon = f'<g id="icon">{rect}<use xlink:href="#g{n - 1}"/></g>'
                if entry == "icon_first":
                    parts.insert(0, icon)
                elif entry == "icon_last":
                    parts.append(icon)
                elif entry == "use_first":
                    parts.insert(0, f'<use id="e0" xlink:href="#g{n - 1}"/>')
                body = "".join(parts)
                if entry == "wrapped":
                    body = f'<g id="wrap">{body}</g>'
                out.append((HDR + body + "</svg>", f"use_cycle_{n}_enum_{entry}{'_ws' if ws else ''}"))
    # clip-path cycles
    for n in (1, 2, 3):
        cps = "".join(f'<clipPath id="c{i}" clip-path="url(#c{(i + 1) % n})">{rect}</clipPath>' for i in range(n))
        out.append((HDR + f"<defs>{cps}</defs>" + '<rect x="1" y="1" width="40" height="40" clip-path="url(#c0)"/></svg>', f"clip_cycle_{n}_enum"))
    # the same layouts with the SVG 2 spelling (plain href), and with one link of each spelling
    plain = []
    for doc, label in out:
        if "xlink:href=" in doc and not label.startswith("clip_cycle"):
            plain.append((doc.replace("xlink:href=", "href="), label + "_plainhref"))
            if doc.count("xlink:href=") >= 2:
                plain.append((doc.replace("xlink:href=", "href=", 1), label + "_mixedhref"))
    return out + plain


def _respell(doc, label, rng):
    """SVG 2 lets references be written href instead of xlink:href: all of them, or a random subset."""
    k = rng.random()
    if k < 0.2 and "xlink:href=" in doc:
        return doc.replace("xlink:href=", "href="), label + "_plainhref"
    if k < 0.3 and doc.count("xlink:href=") >= 2:
        return re.sub(r"xlink:href=", lambda m: "href=" if rng.random() < 0.5 else m.group(0), doc), label + "_mixedhref"
    return doc, label


KINDS = (use_cycle, use_cycle, clip_cycle, gradient_cycle, gradient_cycle, dangling, malformed, malformed, deep, wide_dag, unsupported)


def hostile_doc(rng, canary_dir):
    k = rng.random()
    if k < 0.15:
        return entities(rng, canary_dir)
    f = rng.choice(KINDS)
    return _respell(*f(rng), rng)
