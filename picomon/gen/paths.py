"""Seeded generators of path command sequences and of path-data strings."""
import itertools
import random

ARITY = dict(m=2, z=0, l=2, h=1, v=1, c=6, s=4, q=4, t=2, a=7)
DRAW = "lhvcsqta"
ALL20 = [c for c in "mzlhvcsqta"] + [c.upper() for c in "mzlhvcsqta"]

# every lexical number form of the grammar (valid ones first, then junk forms)
NUMBER_FORMS_VALID = ["0", "1", "01", "00", "1.", "1.0", ".5", "0.5", "-1", "+1", "-.5", "1e2", "1E-2", "1.5e+1", "007", "-0", "10", "2.50"]
NUMBER_FORMS_JUNK = ["1e", "1e+", ".", "-", "+-1", "1..", "e1", "0x1"]
SEPARATORS = ["", " ", ",", " , ", "\t", "\n", ",,", "  "]


def fmt_num(v, rng=None, style=None):
    """A lexical form for float v that denotes exactly v."""
    if style is None:
        style = rng.choice(("plain", "plain", "plain", "exp", "lead", "plus", "dot")) if rng else "plain"
    if style == "exp" and rng is not None and v == v and abs(v) not in (0.0, float("inf")):
        # every exponent spelling of the grammar: e / E, explicit + or -, zero-padded digits
        for _ in range(4):
            k = rng.randint(1, 3)
            e = rng.choice("eE")
            if rng.random() < 0.5:
                m, x = float(v) / 10 ** k, rng.choice(("+", "+", "")) + rng.choice(("", "0")) + str(k)
            else:
                m, x = float(v) * 10 ** k, "-" + rng.choice(("", "0")) + str(k)
            ms = repr(m)
            if "e" in ms or "inf" in ms or "nan" in ms:
                continue
            if ms.endswith(".0") and rng.random() < 0.7:
                ms = ms[:-2]
            text = ms + e + x
            try:
                if float(text) == float(v):
                    return text
            except ValueError:
                pass
    if isinstance(v, int) or float(v).is_integer():
        iv = int(v)
        if style == "dot":
            return f"{iv}."
        if style == "exp" and iv != 0 and iv % 10 == 0:
            return f"{iv // 10}e1"
        if style == "plus" and iv >= 0:
            return f"+{iv}"
        return str(iv)
    s = repr(float(v))
    if style == "lead" and s.startswith("0."):
        return s[1:]
    if style == "lead" and s.startswith("-0."):
        return "-" + s[2:]
    if style == "plus" and v > 0:
        return "+" + s
    return s


def render(cmds, rng=None, compact=False):
    """Render exploded or unexploded commands into a grammar-valid string with random
    (valid) separators.  Relative safety: a separator is forced where omitting it would
    change tokenisation."""
    out = []
    prev_letter = None
    for cmd, args in cmds:
        letter = cmd
        implicit = False
        if rng and prev_letter is not None and rng.random() < 0.3:
            # implicit repetition when allowed
            if (prev_letter == letter and letter not in "zZ") or (prev_letter, letter) in (("M", "L"), ("m", "l")):
                implicit = True
        if implicit:
            piece = _sep(rng, force=True)
        else:
            piece = (rng.choice(["", " ", "  ", "\n"]) if rng and out else "") + letter + (rng.choice(["", " "]) if rng else "")
        toks = []
        for k, a in enumerate(args):
            if letter in "aA" and (k % 7) in (3, 4):
                toks.append(("f", str(int(a))))
            else:
                toks.append(("n", fmt_num(a, rng)))
        for k, (kind, tok) in enumerate(toks):
            if k == 0:
                piece += tok
                continue
            pk, ptok = toks[k - 1]
            need = True
            if pk == "f":
                need = False
            elif kind == "n" and tok[0] in "+-":
                need = False
            elif kind == "n" and tok[0] == "." and ("." in ptok or "e" in ptok.lower()):
                need = False
            piece += _sep(rng, force=need)
            piece += tok
        out.append(piece)
        if not implicit:
            prev_letter = {"M": "L", "m": "l"}.get(letter, letter) if letter not in "zZ" else None
        # after implicit keep prev_letter
    return "".join(out)


def _sep(rng, force):
    if rng is None:
        return " "
    opts = [" ", ",", " ,", ", ", "  ", " , "]
    if not force:
        opts = opts + ["", ""]
    return rng.choice(opts)


def rand_coord(rng, scale=100.0, lattice=False):
    if lattice:
        return float(rng.choice((0, 1, 2, 3, 5, 8, -1, -3)))
    k = rng.random()
    if k < 0.5:
        return round(rng.uniform(-scale, scale), rng.choice((0, 1, 2)))
    if k < 0.8:
        return float(rng.randint(-10, 10))
    return rng.uniform(-scale, scale)


def rand_args(rng, c, scale=100.0, lattice=False):
    c = c.lower()
    if c == "a":
        rx = abs(rand_coord(rng, scale / 2, lattice)) + (0 if rng.random() < 0.05 else 1)
        ry = abs(rand_coord(rng, scale / 2, lattice)) + (0 if rng.random() < 0.05 else 1)
        rot = float(rng.choice((0, 0, 30, 45, 90, -60, 200))) if rng.random() < 0.7 else rng.uniform(-400, 400)
        return (rx, ry, rot, rng.randint(0, 1), rng.randint(0, 1), rand_coord(rng, scale, lattice), rand_coord(rng, scale, lattice))
    return tuple(rand_coord(rng, scale, lattice) for _ in range(ARITY[c]))


def random_cmds(rng, n, scale=100.0, lattice=False, letters=None, first=None):
    """Random exploded command sequence starting with a moveto."""
    letters = letters or ALL20
    first = first or rng.choice("Mm" if rng.random() < 0.85 else "MM")
    cmds = [(first, rand_args(rng, "m", scale, lattice))]
    for _ in range(n):
        c = rng.choice(letters)
        cmds.append((c, rand_args(rng, c, scale, lattice) if c not in "zZ" else ()))
    return cmds


def mutate(s, rng):
    if not s:
        return rng.choice("M1, .e-z")
    k = rng.random()
    i = rng.randrange(len(s))
    if k < 0.3:
        return s[:i] + s[i + 1 :]
    if k < 0.55:
        return s[:i] + s[i] + s[i:]
    if k < 0.75 and len(s) > 1:
        j = rng.randrange(len(s))
        l = list(s)
        l[i], l[j] = l[j], l[i]
        return "".join(l)
    return s[:i] + rng.choice("Mmzlhvcsqta01.-+eE ,\t\n9xZLHVCSQTA") + s[i:]


# ------------------------------------------------------------ exhaustive lattice (C09)

LATTICE = (0.0, 1.0, 3.0)
ARC_RADII = ((2.0, 1.0), (1.0, 1.0), (0.5, 3.0))


def lattice_args(c, variant):
    """A few deterministic argument choices per command letter; variant indexes them."""
    cl = c.lower()
    if cl == "z":
        return [()]
    if cl in ("h", "v"):
        return [(0.0,), (2.0,), (-1.0,)]
    if cl in ("m", "l", "t"):
        return [(0.0, 0.0), (2.0, 1.0), (-1.0, 3.0)]
    if cl in ("q", "s"):
        return [(1.0, 2.0, 3.0, 0.0), (0.0, 0.0, 0.0, 0.0), (-2.0, 1.0, 1.0, 1.0)]
    if cl == "c":
        return [(1.0, 2.0, 2.0, 2.0, 3.0, 0.0), (0.0, 0.0, 1.0, 1.0, 1.0, 1.0)]
    if cl == "a":
        return [(2.0, 1.0, 0.0, 0, 1, 3.0, 1.0), (1.0, 1.0, 30.0, 1, 0, 0.0, 2.0), (0.5, 0.5, 0.0, 1, 1, 4.0, 0.0), (2.0, 3.0, 45.0, 0, 0, 0.0, 0.0)]
    raise ValueError(c)


def letter_sequences(length):
    """All letter sequences of exactly `length` commands after an initial moveto."""
    return itertools.product(ALL20, repeat=length)
