"""Seeded generators for transform lists, matrices and rectangle pairs (C11, documents)."""
import math
import random

from picomon.gen.paths import fmt_num

WS = (" ", "  ", "\t", "\n", " \t")


def _num(rng, lo, hi, kind=None):
    kind = kind or rng.choice(("int", "dec", "dec", "exp", "float"))
    if kind == "int":
        return float(rng.randint(int(lo), int(hi)))
    if kind == "dec":
        return round(rng.uniform(lo, hi), rng.choice((1, 2, 3)))
    if kind == "exp":
        return float(rng.randint(1, 9)) * 10.0 ** rng.randint(-3, 3) * rng.choice((1, -1))
    return rng.uniform(lo, hi)


def _sep(rng):
    k = rng.random()
    if k < 0.35:
        return rng.choice(WS)
    if k < 0.6:
        return ","
    return rng.choice(("", " ", "\t")) + "," + rng.choice(("", " ", "\n"))


def transform_list(rng, nmin=1, nmax=5, mild=False):
    """(text, ops) - text is valid per the SVG 1.1 transform BNF."""
    ops = []
    parts = []
    if mild:
        # well-conditioned transforms for rendering workloads: values stay in the given ranges
        def _num(r, lo, hi, kind=None):  # noqa: shadows the module-level helper on purpose
            kind = r.choice(("int", "dec", "dec", "float")) if kind in (None, "exp") else kind
            if kind == "int":
                lo2, hi2 = int(math.ceil(lo)), int(math.floor(hi))
                if lo2 > hi2:
                    kind = "dec"
                else:
                    return float(r.randint(lo2, hi2))
            if kind == "dec":
                return round(r.uniform(lo, hi), r.choice((1, 2, 3)))
            return r.uniform(lo, hi)
    else:
        _num = globals()["_num"]
    for _ in range(rng.randint(nmin, nmax)):
        op = rng.choice(("matrix", "translate", "translate1", "scale", "scale1", "rotate", "rotate3", "skewX", "skewY"))
        if op == "matrix":
            if mild:
                args = [_num(rng, 0.6, 1.4, "dec"), _num(rng, -0.4, 0.4, "dec"), _num(rng, -0.4, 0.4, "dec"), _num(rng, 0.6, 1.4, "dec"), _num(rng, -10, 10), _num(rng, -10, 10)]
            else:
                args = [_num(rng, -3, 3) for _ in range(4)] + [_num(rng, -100, 100) for _ in range(2)]
            name = "matrix"
        elif op == "translate":
            args = [_num(rng, -20 if mild else -100, 20 if mild else 100) for _ in range(2)]
            name = "translate"
        elif op == "translate1":
            args = [_num(rng, -20 if mild else -100, 20 if mild else 100)]
            name = "translate"
        elif op == "scale":
            args = [_num(rng, 0.5, 1.6, "dec"), _num(rng, 0.5, 1.6, "dec")] if mild else [_num(rng, -4, 4), _num(rng, -4, 4)]
            name = "scale"
        elif op == "scale1":
            args = [_num(rng, 0.5, 1.6, "dec")] if mild else [_num(rng, -4, 4)]
            name = "scale"
        elif op == "rotate":
            args = [_num(rng, -90 if mild else -720, 90 if mild else 720)]
            name = "rotate"
        elif op == "rotate3":
            args = [_num(rng, -90 if mild else -720, 90 if mild else 720), _num(rng, 20 if mild else -100, 80 if mild else 100), _num(rng, 20 if mild else -100, 80 if mild else 100)]
            name = "rotate"
        else:
            args = [_num(rng, -30 if mild else -80, 30 if mild else 80)]
            name = op
        ops.append((name, args))
        s = name + rng.choice(("", "", " ")) + "(" + rng.choice(("", " "))
        for i, a in enumerate(args):
            tok = fmt_num(a, rng)
            if i:
                sep = _sep(rng)
                if sep == "" :
                    sep = " "
                s += sep
            s += tok
        s += rng.choice(("", " ")) + ")"
        parts.append(s)
    text = rng.choice(("", "", " "))
    for i, p in enumerate(parts):
        if i:
            text += rng.choice((" ", ",", " , ", "\n", "  "))
        text += p
    text += rng.choice(("", "", " "))
    return text, ops


def matrix6(rng):
    k = rng.random()
    mag = rng.choice((1e-3, 1.0, 1.0, 10.0, 1e3, 1e6))
    if k < 0.1:  # singular
        a, b = rng.uniform(-mag, mag), rng.uniform(-mag, mag)
        t = float(rng.randint(-3, 3))
        return (a, b, a * t, b * t, rng.uniform(-mag, mag), rng.uniform(-mag, mag))
    if k < 0.2:  # near singular
        a, b = rng.uniform(-mag, mag), rng.uniform(-mag, mag)
        t = rng.uniform(-3, 3)
        return (a, b, a * t + mag * 1e-9, b * t, rng.uniform(-mag, mag), rng.uniform(-mag, mag))
    if k < 0.3:  # pure translation
        return (1.0, 0.0, 0.0, 1.0, rng.uniform(-mag, mag), rng.uniform(-mag, mag))
    if k < 0.4:  # reflection / scale
        return (rng.choice((-1.0, 1.0)) * rng.uniform(0.1, 3) * mag, 0.0, 0.0, rng.choice((-1.0, 1.0)) * rng.uniform(0.1, 3) * mag, rng.uniform(-mag, mag), rng.uniform(-mag, mag))
    if k < 0.55:  # rotation * scale
        th = rng.uniform(-math.pi, math.pi)
        s = rng.uniform(0.1, 3) * mag
        return (s * math.cos(th), s * math.sin(th), -s * math.sin(th), s * math.cos(th), rng.uniform(-mag, mag), rng.uniform(-mag, mag))
    if k < 0.65:  # integers
        return tuple(float(rng.randint(-5, 5)) for _ in range(6))
    if k < 0.7:  # a == 0 branch of decompose_translation
        return (0.0, rng.uniform(-mag, mag), rng.uniform(-mag, mag), rng.uniform(-mag, mag), rng.uniform(-mag, mag), rng.uniform(-mag, mag))
    return tuple(rng.uniform(-mag, mag) for _ in range(6))


def rect_pair(rng):
    mag = rng.choice((1.0, 10.0, 100.0, 1e-3, 1e5))
    def rect(nonzero_origin):
        x = rng.uniform(-mag, mag) if nonzero_origin else 0.0
        y = rng.uniform(-mag, mag) if nonzero_origin else 0.0
        return (x, y, rng.uniform(0.05, 2) * mag, rng.uniform(0.05, 2) * mag)
    src = rect(rng.random() < 0.7)
    dst = rect(rng.random() < 0.7)
    k = rng.random()
    if k < 0.15:  # equal aspect ratio
        f = rng.uniform(0.2, 5)
        dst = (dst[0], dst[1], src[2] * f, src[3] * f)
    elif k < 0.25:
        src = tuple(float(round(v)) for v in src[:2]) + (float(rng.randint(1, 50)), float(rng.randint(1, 50)))
        dst = tuple(float(round(v)) for v in dst[:2]) + (float(rng.randint(1, 50)), float(rng.randint(1, 50)))
    return src, dst


PAR_ALIGNS = ("none", "xMinYMin", "xMidYMin", "xMaxYMin", "xMinYMid", "xMidYMid", "xMaxYMid", "xMinYMax", "xMidYMax", "xMaxYMax")


def par_string(rng, align, mos):
    a = rng.choice((align, align, align.lower(), align.upper()))
    if mos is None:
        return a
    return a + " " + rng.choice((mos, mos, mos.upper()))
