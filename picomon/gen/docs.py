"""Seeded SVG document generator with feature switches (DESIGN.md 2.4).

A document is a tree of Node objects serialised by to_xml().  Every generated document
carries a feature Counter.  Known-defect input classes are avoided by construction unless
the corresponding `allow_*` switch is set.
"""
import math
import random
from collections import Counter

from picomon.gen import transforms as gt, shapes as gs, paths as gp

SVGNS = "http://www.w3.org/2000/svg"
XLINKNS = "http://www.w3.org/1999/xlink"


class Node:
    __slots__ = ("tag", "attrs", "children", "text", "kind", "flag")

    def __init__(self, tag, attrs=None, children=None, text=None, kind="el", flag=None):
        self.flag = flag  # "unsupported" | "noise" | None
        self.tag = tag
        self.attrs = dict(attrs or {})
        self.children = list(children or [])
        self.text = text
        self.kind = kind  # el | comment | pi | raw

    def iter(self):
        yield self
        for c in self.children:
            if isinstance(c, Node):
                yield from c.iter()

    def copy(self):
        return Node(self.tag, dict(self.attrs), [c.copy() for c in self.children], self.text, self.kind, self.flag)


def esc(s):
    return str(s).replace("&", "&amp;").replace("<", "&lt;").replace('"', "&quot;")


def to_xml(n, ws=""):
    if n.kind == "comment":
        return f"<!--{n.text}-->"
    if n.kind == "pi":
        return f"<?{n.tag} {n.text}?>"
    if n.kind == "raw":
        return n.text
    a = "".join(f' {k}="{esc(v)}"' for k, v in n.attrs.items())
    if not n.children and not n.text:
        return f"<{n.tag}{a}/>"
    inner = (esc(n.text) if n.text else "") + ws.join(to_xml(c, ws) for c in n.children)
    return f"<{n.tag}{a}>{ws if n.children else ''}{inner}{ws if n.children else ''}</{n.tag}>"


def unum(v):
    """Unsigned spelling (arc radii are `nonnegative-number`s: no explicit plus)."""
    t = fnum(v)
    return t[1:] if t.startswith("+") else t


LEX = {"rng": None, "p": 0.04, "count": None}  # lexical variety of attribute numbers (set by Gen)


def fnum(v):
    """Number as attribute text.  With a small probability one of the other spellings the SVG number
    grammar allows for the same value: leading dot, explicit plus, trailing dot, exponent with e / E and
    explicit sign."""
    if isinstance(v, str):
        return v
    plain = str(int(v)) if float(v).is_integer() else repr(round(float(v), 4))
    r = LEX["rng"]
    if r is not None and r.random() < LEX["p"]:
        x = float(plain)
        k = r.random()
        alt = plain
        if k < 0.25 and plain.startswith(("0.", "-0.")):
            alt = plain.replace("0.", ".", 1)
        elif k < 0.45 and x > 0:
            alt = "+" + plain
        else:
            # (no "5." here: the pinned path-data tokenizer refuses a trailing dot - permitted by C10 - and these
            #  texts also end up in path data and point lists, where that would only cost judged documents)
            alt = gp.fmt_num(x, r, "exp")
        try:
            if float(alt) == x:
                if LEX["count"] is not None:
                    LEX["count"]["lexical_number_form"] += 1
                return alt
        except ValueError:
            pass
    return plain


PALETTE = ["red", "blue", "green", "#ff0", "#0ff", "#f0f", "orange", "purple", "brown", "pink", "gray", "navy", "teal", "olive",
           "maroon", "lime", "aqua", "silver", "gold", "indigo", "#123456", "#abcdef", "#fedcba", "#13579b", "#2468ac", "#777", "#c0ffee", "#bada55"]


class Gen:
    def __init__(self, rng, **opt):
        self.r = rng
        self.f = Counter()
        LEX["rng"], LEX["count"] = rng, self.f
        self.nid = 0
        self.ncol = 0
        self.opt = dict(
            transforms=True, use=True, nested_svg=True, display_none=True, clips=False, strokes=False, paint=False,
            gradients=False, max_depth=3, unique_fills=True, rel_paths=True, arcs=True,
            allow_use_clip_on_transformed_target=False, allow_equal_inherited_on_use_target=False,
            allow_nested_svg_in_nested_svg_hidden=False, allow_use_clip_and_target_clip=False,
        )
        self.opt.update(opt)
        self.idpool = []  # ids of instancable elements: (id, node, has_own_transform, has_clip)
        self.clipids = []
        self.defs = []
        self.gradids = []
        self.in_nested_hidden = 0

    # ------------------------------------------------------------ basics
    def num(self, lo, hi, nd=None):
        nd = self.r.choice((0, 1, 2)) if nd is None else nd
        return round(self.r.uniform(lo, hi), nd)

    def new_id(self, prefix):
        if self.r.random() < 0.04:
            # XML names may contain any letter
            prefix = self.r.choice(("град", "dégradé", "ñ", "Ω")) + prefix
            self.f["non_ascii_id"] += 1
        self.nid += 1
        return f"{prefix}{self.nid}"

    def color(self):
        if self.opt["unique_fills"]:
            self.ncol += 1
            # distinct, reproducible hex colours
            v = (self.ncol * 2654435761) & 0xFFFFFF
            return "#%06x" % v
        return self.r.choice(PALETTE)

    def transform(self):
        self.f["transform"] += 1
        text, ops = gt.transform_list(self.r, 1, 3, mild=True)
        for op, _ in ops:
            self.f["tf_" + op] += 1
        return text.strip()

    # ------------------------------------------------------------ shapes
    def path_d(self):
        r = self.r
        k = r.random()
        if k < 0.3:
            self.f["path_outline"] += 1
            return gp.render(gs.any_outline(r, 5, 95))
        pts = [(self.num(5, 95), self.num(5, 95)) for _ in range(r.randint(3, 6))]
        if k < 0.65 or not self.opt["rel_paths"]:
            self.f["path_abs"] += 1
            d = f"M{fnum(pts[0][0])},{fnum(pts[0][1])}"
            for p in pts[1:]:
                c = r.choice("LLCQHVSTA" if self.opt["arcs"] else "LLCQHVST")
                n = lambda: fnum(self.num(5, 95))
                if c == "L":
                    d += f" L{fnum(p[0])},{fnum(p[1])}"
                elif c == "H":
                    d += f" H{fnum(p[0])}"
                elif c == "V":
                    d += f" V{fnum(p[1])}"
                elif c == "C":
                    d += f" C{n()},{n()} {n()},{n()} {fnum(p[0])},{fnum(p[1])}"
                elif c == "Q":
                    d += f" Q{n()},{n()} {fnum(p[0])},{fnum(p[1])}"
                elif c == "S":
                    d += f" C{n()},{n()} {n()},{n()} {n()},{n()} S{n()},{n()} {fnum(p[0])},{fnum(p[1])}"
                elif c == "T":
                    d += f" Q{n()},{n()} {n()},{n()} T{fnum(p[0])},{fnum(p[1])}"
                else:
                    self.f["path_arc"] += 1
                    d += f" A{unum(self.num(5, 40))} {unum(self.num(5, 40))} {fnum(self.num(0, 90, 0))} {r.randint(0, 1)} {r.randint(0, 1)} {fnum(p[0])},{fnum(p[1])}"
            if r.random() < 0.6:
                d += " Z"
            return d
        self.f["path_rel"] += 1
        d = f"m{fnum(pts[0][0])},{fnum(pts[0][1])}"
        for _ in pts[1:]:
            c = r.choice("lhvcqa" if self.opt["arcs"] else "lhvcq")
            n = lambda: fnum(self.num(-30, 30))
            if c == "l":
                d += f" l{n()},{n()}"
            elif c == "h":
                d += f" h{n()}"
            elif c == "v":
                d += f" v{n()}"
            elif c == "c":
                d += f" c{n()},{n()} {n()},{n()} {n()},{n()}"
            elif c == "q":
                d += f" q{n()},{n()} {n()},{n()}"
            else:
                d += f" a{unum(self.num(5, 30))} {unum(self.num(5, 30))} {fnum(self.num(0, 90, 0))} {r.randint(0, 1)} {r.randint(0, 1)} {n()},{n()}"
        return d + " z"

    def shape(self, kinds=None, closed_only=False):
        """A basic shape / path node without paint attributes."""
        r = self.r
        kinds = kinds or ("rect", "rrect", "circle", "ellipse", "polygon", "path", "path", "polyline", "line")
        if closed_only:
            kinds = tuple(k for k in kinds if k not in ("line",))
        k = r.choice(kinds)
        x, y = self.num(5, 60), self.num(5, 60)
        w, h = self.num(8, 40), self.num(8, 40)
        self.f["shape_" + k] += 1
        if k == "rect":
            return Node("rect", {"x": fnum(x), "y": fnum(y), "width": fnum(w), "height": fnum(h)})
        if k == "rrect":
            a = {"x": fnum(x), "y": fnum(y), "width": fnum(w), "height": fnum(h), "rx": fnum(self.num(1, 25))}
            if r.random() < 0.5:
                a["ry"] = fnum(self.num(1, 25))
            return Node("rect", a)
        if k == "circle":
            return Node("circle", {"cx": fnum(x + w / 2), "cy": fnum(y + h / 2), "r": fnum(w / 2)})
        if k == "ellipse":
            return Node("ellipse", {"cx": fnum(x + w / 2), "cy": fnum(y + h / 2), "rx": fnum(w / 2), "ry": fnum(h / 2)})
        if k == "line":
            return Node("line", {"x1": fnum(x), "y1": fnum(y), "x2": fnum(x + w), "y2": fnum(y + h)})
        if k in ("polygon", "polyline"):
            pts = [(self.num(5, 95), self.num(5, 95)) for _ in range(r.randint(3, 6))]
            return Node(k, {"points": " ".join(f"{fnum(px)},{fnum(py)}" for px, py in pts)})
        if r.random() < 0.06:
            # integer coordinates except one that is tiny (far below any rounding step); every spelling of it
            xi, yi, wi, hi = int(x), int(y), int(w) + 2, int(h) + 2
            tiny = r.choice(("1e-5", "0.00001", "3e-06", "2E-5", "0.000004", "1e-7"))
            self.f["tiny_coordinate"] += 1
            form = r.random()
            if form < 0.4:
                # the tiny number is an absolute coordinate itself (next to the axis)
                d = f"M{tiny},{yi} L{wi},{yi} L{wi},{yi + hi} L0,{yi + hi} Z" if r.random() < 0.5 else f"M{xi},{tiny} L{xi + wi},0 L{xi + wi},{hi} L{xi},{hi} Z"
            elif form < 0.7:
                d = f"M{xi},{yi} L{xi + wi},{yi} L{xi + wi},{yi + hi} l{tiny},0 L{xi},{yi + hi} Z"
            else:
                d = f"M{xi},{yi} L{xi + wi},{yi} L{xi + wi},{yi + hi} L{xi},{yi + hi} L{xi},{yi} l{tiny},0 Z"
            return Node("path", {"d": d})
        return Node("path", {"d": self.path_d()})

    def painted_shape(self):
        n = self.shape()
        if n.tag in ("line",) and not self.opt["strokes"]:
            n = self.shape(closed_only=True)
        self.paint_attrs(n, leaf=True)
        if self.opt["gradients"] and self.gradids and self.r.random() < 0.3 and n.tag != "line":
            n.attrs.pop("fill", None)
            n.attrs["fill"] = f"url(#{self.r.choice(self.gradids)})"
            self.f["gradient_fill"] += 1
        if self.opt["strokes"] and self.r.random() < 0.3:
            sp = stroke_props(self, self.r)
            if self.opt["gradients"] and self.gradids and self.r.random() < 0.3:
                # a gradient as stroke paint (reference-structure workloads only: C04 documents have no gradients)
                sp["stroke"] = f"url(#{self.r.choice(self.gradids)})"
                self.f["gradient_stroke"] += 1
            if self.r.random() < 0.3:
                n.attrs["style"] = (n.attrs.get("style", "") + ";" if n.attrs.get("style") else "") + ";".join(f"{k}:{v}" for k, v in sp.items())
            else:
                n.attrs.update(sp)
            self.f["stroked_shape"] += 1
        if self.opt["transforms"] and self.r.random() < 0.4:
            n.attrs["transform"] = self.transform()
        return n

    # ------------------------------------------------------------ paint
    def paint_attrs(self, n, leaf):
        """Structural profile: explicit distinct opaque fill on most leaves."""
        r = self.r
        if not self.opt["strokes"] and r.random() < (0.1 if leaf else 0.06):
            # stroke properties without any stroke: they paint nothing and must not survive either
            stray = {"stroke-width": fnum(self.num(1, 9, 1)), "stroke-dashoffset": fnum(self.num(1, 9, 1)), "stroke-dasharray": "4 2",
                     "stroke-linecap": "round", "stroke-linejoin": "bevel", "stroke-miterlimit": "2", "stroke-opacity": "0.5"}
            for k in r.sample(sorted(stray), r.randint(1, 3)):
                if r.random() < 0.7:
                    n.attrs[k] = stray[k]
                else:
                    n.attrs["style"] = (n.attrs["style"].rstrip(";") + ";" if n.attrs.get("style") else "") + f"{k}:{stray[k]}"
            self.f["stray_stroke_property"] += 1
        if self.opt["paint"]:
            return self.cascade_attrs(n, leaf)
        if leaf:
            if r.random() < 0.85:
                n.attrs["fill"] = self.color()
            if self.opt["clips"] and r.random() < 0.4:
                n.attrs["fill-rule"] = r.choice(("evenodd", "nonzero"))
        elif r.random() < 0.3:
            n.attrs["fill"] = self.color()

    def cascade_attrs(self, n, leaf):
        """C05 profile: random subsets of paint properties as attribute / style / both."""
        r = self.r
        props = {}
        if r.random() < (0.7 if leaf else 0.35):
            props["fill"] = r.choice(PALETTE + ["none"] * 2 + ["black"])
        if r.random() < 0.25:
            props["fill-opacity"] = r.choice(("0.5", "0.25", "1", "0", "0.8"))
            if not leaf and r.random() < 0.12:
                # the same values in other legal spellings (on groups: known-finding class when a use target inherits them)
                props["fill-opacity"] = r.choice((".5", "0.50", "5e-1", "+0.25", "25e-2"))
                self.f["fill_opacity_other_spelling"] += 1
        if r.random() < (0.3 if leaf else 0.45):
            props["opacity"] = r.choice(("0.5", "0.5", "0.3", "1", "0", "0.75", "0.9"))
            if self.opt.get("out_of_range_opacity", True) and r.random() < 0.08:
                # legal SVG: values outside [0, 1] are clamped
                props["opacity"] = r.choice(("1.5", "-0.25", "2", "-1"))
                self.f["opacity_out_of_range"] += 1
        if r.random() < 0.15:
            props["fill-rule"] = r.choice(("evenodd", "nonzero"))
        if self.opt["display_none"] and r.random() < 0.06:
            props["display"] = r.choice(("none", "inline"))
        if r.random() < 0.06:
            # inherited, but only currentColor would use it (not generated): renders nothing, must not survive
            props["color"] = r.choice(("red", "#123456", "teal"))
            self.f["color_property"] += 1
        style = []
        for k, v in props.items():
            mode = r.random()
            if mode < 0.5:
                n.attrs[k] = v
                self.f["prop_attr"] += 1
            elif mode < 0.8:
                style.append(f"{k}:{v}")
                self.f["prop_style"] += 1
            else:
                # both, different values: style must win
                alt = {"fill": "black" if v != "black" else "red", "fill-opacity": "0.9", "opacity": "0.6", "fill-rule": "nonzero" if v == "evenodd" else "evenodd",
                       "display": "inline", "color": "blue"}[k]
                n.attrs[k] = alt
                style.append(f"{k}:{v}")
                self.f["prop_both"] += 1
        if style:
            n.attrs["style"] = (n.attrs["style"].rstrip(";") + ";" if n.attrs.get("style") else "") + r.choice(("; ", ";")).join(style) + r.choice(("", ";"))

    # ------------------------------------------------------------ structure
    def maybe_id(self, n, prefix, p=0.3, own_transform=False):
        if self.opt["use"] and self.r.random() < p:
            # scope decision: a nested svg that takes its size from "the parent viewport" is not
            # instanced - which viewport that is for a use instance is not settled by the spec
            if any(x.tag == "svg" and ("width" not in x.attrs or "height" not in x.attrs) for x in n.iter()):
                return None
            i = self.new_id(prefix)
            n.attrs = {"id": i, **n.attrs}
            self.idpool.append((i, n))
            return i
        return None

    def clip_ref(self, n, on):
        """Maybe put a clip-path on node n."""
        if self.opt["clips"] and self.clipids and self.r.random() < 0.3:
            n.attrs["clip-path"] = f"url(#{self.r.choice(self.clipids)})"
            self.f["clip_on_" + on] += 1
            return True
        return False

    def node(self, depth):
        r = self.r
        k = r.random()
        o = self.opt
        if depth >= o["max_depth"] or k < 0.45:
            s = self.painted_shape()
            self.clip_ref(s, "shape")
            self.maybe_id(s, "s")
            if o["display_none"] and not o["paint"] and r.random() < 0.05 and not self._dn:
                # (an explicit display:none under a display:none ancestor is the known
                # "explicit value equal to the inherited one" class - see allow_equal_inherited...)
                s.attrs["display"] = "none"
                self.f["display_none"] += 1
            elif o["display_none"] and self._dn and r.random() < 0.5:
                # display is not inherited, but nothing below a display:none element is rendered,
                # whatever the descendants say themselves
                if r.random() < 0.5:
                    s.attrs["display"] = r.choice(("inline", "block"))
                else:
                    s.attrs["style"] = (s.attrs["style"].rstrip(";") + ";" if s.attrs.get("style") else "") + "display:inline"
                self.f["display_inline_under_none"] += 1
            return s
        if k < 0.7:
            g = Node("g")
            if o["transforms"] and r.random() < 0.6:
                g.attrs["transform"] = self.transform()
                self.f["group_transform"] += 1
            self.paint_attrs(g, leaf=False)
            self.clip_ref(g, "group")
            dn = False
            if o["display_none"] and not o["paint"] and r.random() < 0.08 and not self._dn:
                g.attrs["display"] = "none"
                self.f["display_none"] += 1
                dn = True
            self._dn += 1 if dn else 0
            g.children = [self.node(depth + 1) for _ in range(r.randint(1, 3))]
            self._dn -= 1 if dn else 0
            self.maybe_id(g, "g")
            self.f["group"] += 1
            return g
        if k < 0.85 and o["use"] and self.idpool:
            return self.use_node()
        if o["nested_svg"]:
            return self.nested_svg(depth)
        return self.painted_shape()

    def _has(self, n, pred):
        return any(pred(x) for x in n.iter())

    def use_node(self):
        r = self.r
        o = self.opt
        tid, tnode = r.choice(self.idpool)
        u = Node("use", {"xlink:href": f"#{tid}"})
        if r.random() < 0.6:
            u.attrs["x"] = fnum(self.num(-20, 20))
            u.attrs["y"] = fnum(self.num(-20, 20))
            self.f["use_xy"] += 1
        if o["transforms"] and r.random() < 0.5:
            u.attrs["transform"] = self.transform()
            self.f["use_transform"] += 1
        if r.random() < 0.3 and not o["paint"]:
            u.attrs["fill"] = self.color()
            self.f["use_fill"] += 1
        if o["paint"]:
            self.cascade_attrs(u, leaf=False)
        can_clip = True
        if not o["allow_use_clip_on_transformed_target"] and "transform" in tnode.attrs:
            can_clip = False  # open finding: clip on use is moved onto a transformed target
        if not o["allow_use_clip_and_target_clip"] and "clip-path" in tnode.attrs:
            can_clip = False  # raises "Unrecognized url" (observation O2)
        if can_clip:
            self.clip_ref(u, "use")
        self.f["use"] += 1
        if tnode.tag == "g":
            self.f["use_of_group"] += 1
            if self._has(tnode, lambda x: x.tag == "use"):
                self.f["use_of_group_with_use"] += 1
        return u

    def nested_svg(self, depth):
        r = self.r
        o = self.opt
        n = Node("svg", {"x": fnum(self.num(0, 40)), "y": fnum(self.num(0, 40))})
        if r.random() < 0.85:
            n.attrs["width"] = fnum(self.num(20, 60))
        if r.random() < 0.85:
            n.attrs["height"] = fnum(self.num(20, 60))
        if r.random() < 0.7:
            n.attrs["viewBox"] = f"{fnum(self.num(-10, 20))} {fnum(self.num(-10, 20))} {fnum(self.num(30, 120))} {fnum(self.num(30, 120))}"
            self.f["nested_viewbox"] += 1
        if r.random() < 0.7:
            al = r.choice(gt.PAR_ALIGNS)
            mos = r.choice((None, "meet", "slice"))
            n.attrs["preserveAspectRatio"] = al if mos is None else f"{al} {mos}"
            self.f["nested_par"] += 1
        hidden = True
        if r.random() < 0.3 or (self.in_nested_hidden and not o["allow_nested_svg_in_nested_svg_hidden"]):
            n.attrs["overflow"] = "visible"
            hidden = False
            self.f["nested_visible"] += 1
        self.f["nested_svg"] += 1
        if self.in_nested_hidden or (not hidden and self._in_nested):
            self.f["nested_in_nested"] += 1
        self._in_nested += 1
        self.in_nested_hidden += 1 if hidden else 0
        # ids inside nested svgs are not offered to <use>: instancing a nested svg subtree is fine,
        # but keep the pool simple
        n.children = [self.node(depth + 1) for _ in range(r.randint(1, 2))]
        self.in_nested_hidden -= 1 if hidden else 0
        self._in_nested -= 1
        return n

    _in_nested = 0
    _dn = 0

    # ------------------------------------------------------------ clip paths
    def make_clips(self):
        r = self.r
        for ci in range(r.randint(1, 3)):
            cid = self.new_id("c")
            cp = Node("clipPath", {"id": cid})
            has_tf = False
            if r.random() < 0.3:
                cp.attrs["transform"] = self.transform()
                has_tf = True
                self.f["clippath_transform"] += 1
            if r.random() < 0.1:
                # a child without area (it clips nothing in, and must not disturb its siblings) - first, so that
                # the union starts from an empty region
                cp.children.append(r.choice((Node("line", {"x1": "10", "y1": "10", "x2": "60", "y2": "10"}),
                                             Node("polyline", {"points": "10,10 50,50 30,30"}),
                                             Node("path", {"d": "M5,5 L60,5"}),
                                             Node("path", {"d": "M20,20 L20,70 L20,40 Z"}))))
                self.f["clip_child_without_area_first"] += 1
            for _ in range(r.randint(1, 3)):
                kk = r.random()
                if kk < 0.4:
                    ch = Node("path", {"d": gp.render(gs.rule_sensitive(r))})
                    self.f["clip_child_rule_sensitive"] += 1
                elif kk < 0.5 and self.idpool and False:
                    ch = None
                else:
                    ch = self.shape(closed_only=True)
                if r.random() < 0.5:
                    ch.attrs["clip-rule"] = r.choice(("evenodd", "nonzero"))
                    self.f["clip_rule_" + ch.attrs["clip-rule"]] += 1
                if r.random() < 0.3:
                    ch.attrs["transform"] = self.transform()
                    self.f["clip_child_transform"] += 1
                cp.children.append(ch)
            if self.clipids and r.random() < 0.35:
                # clipPath clipped by another clipPath; together with its own transform the nested clip
                # region is "placed in the coordinate system of the referencing element", i.e. of this
                # clipPath including its transform (as for any element that carries both attributes)
                cp.attrs["clip-path"] = f"url(#{r.choice(self.clipids)})"
                self.f["clip_the_clip"] += 1
                if has_tf:
                    self.f["clip_the_clip_with_own_transform"] += 1
            self.defs.append(cp)
            self.clipids.append(cid)
            self.f["clippath"] += 1

    # ------------------------------------------------------------ documents
    def document(self, body_nodes=None, viewbox="0 0 100 100", root_attrs=None):
        root = Node("svg", {"xmlns": SVGNS, "xmlns:xlink": XLINKNS, "viewBox": viewbox})
        if root_attrs:
            root.attrs.update(root_attrs)
        if self.opt["clips"] and not self.clipids:
            self.make_clips()
        if self.opt["gradients"] and body_nodes is None and not self.gradids:
            for i in range(self.r.randint(1, 3)):
                gid = self.new_id("gr")
                self.defs.append(gradient_node(self, self.r, gid))
                self.gradids.append(gid)
        body = body_nodes if body_nodes is not None else [self.node(0) for _ in range(self.r.randint(2, 5))]
        if self.defs:
            root.children.append(Node("defs", {}, self.defs))
        root.children.extend(body)
        return root


def extreme_scale_node(g, r):
    """Content drawn in very large (or very small) units and brought back by a strong scale:
    invertible matrices with a tiny or huge determinant."""
    s = r.choice((2e-5, 1e-4, 1e-3, 250.0, 4000.0))
    inv = 1.0 / s
    x, y, w, h = (g.num(10, 60) * inv, g.num(10, 60) * inv, g.num(10, 30) * inv, g.num(10, 30) * inv)
    shape = Node("rect", {"x": repr(x), "y": repr(y), "width": repr(w), "height": repr(h), "fill": g.color()})
    k = r.random()
    g.f["extreme_scale"] += 1
    if k < 0.4:
        return Node("g", {"transform": f"scale({s!r})"}, [shape])
    if k < 0.7 and s < 1:
        side = 100.0 * inv
        return Node("svg", {"x": "10", "y": "10", "width": "80", "height": "80", "viewBox": f"0 0 {side!r} {side!r}", "overflow": "visible"},
                    [Node("rect", {"x": repr(0.2 * side), "y": repr(0.3 * side), "width": repr(0.4 * side), "height": repr(0.3 * side), "fill": g.color()})])
    shape.attrs = {"id": g.new_id("xs"), **shape.attrs}
    return Node("g", {}, [Node("defs", {}, [shape]), Node("use", {"xlink:href": "#" + shape.attrs["id"], "transform": f"scale({s!r})"})])


def structural(rng, **opt):
    g = Gen(rng, **opt)
    body = [g.node(0) for _ in range(rng.randint(2, 5))]
    if rng.random() < 0.08:
        body.insert(rng.randint(0, len(body)), extreme_scale_node(g, rng))
    root = g.document(body_nodes=body)
    return to_xml(root), g.f, root


def clipped(rng, **opt):
    g = Gen(rng, clips=True, **opt)
    root = g.document()
    return to_xml(root), g.f, root


# ---------------------------------------------------------------- cascade helpers on Node trees

_INH = ("fill", "fill-rule", "fill-opacity", "stroke", "stroke-width", "stroke-linecap", "stroke-linejoin", "stroke-miterlimit",
        "stroke-dasharray", "stroke-dashoffset", "stroke-opacity", "clip-rule")
_INIT = {"fill": "black", "fill-rule": "nonzero", "fill-opacity": "1", "stroke": "none", "stroke-width": "1", "stroke-linecap": "butt",
         "stroke-linejoin": "miter", "stroke-miterlimit": "4", "stroke-dasharray": "none", "stroke-dashoffset": "0", "stroke-opacity": "1",
         "clip-rule": "nonzero"}


def _style_items(n):
    st = n.attrs.get("style")
    out = []
    if st:
        for d in st.split(";"):
            if ":" in d:
                k, v = d.split(":", 1)
                out.append((k.strip(), v.strip()))
    return out


def own_props(n):
    p = {k: v for k, v in n.attrs.items() if k in _INH or k in ("display", "opacity")}
    for k, v in _style_items(n):
        if k in _INH or k in ("display", "opacity"):
            p[k] = v
    return p


def _del_prop(n, k):
    n.attrs.pop(k, None)
    items = [(a, b) for a, b in _style_items(n) if a != k]
    if "style" in n.attrs:
        if items:
            n.attrs["style"] = ";".join(f"{a}:{b}" for a, b in items)
        else:
            del n.attrs["style"]


def _num_eq(a, b):
    try:
        return float(a) == float(b)
    except Exception:
        return a == b


def redundant_explicit(root):
    """[(node, prop)] for every element inside a <use> target subtree that explicitly
    specifies an inherited property (or display:none) with the very value its original
    ancestors already provide (known-finding class 'explicit-equal-inherited-dropped-on-use')."""
    ids = {n.attrs["id"]: n for n in root.iter() if n.kind == "el" and "id" in n.attrs}
    targets = set()
    for n in root.iter():
        if n.kind == "el" and n.tag == "use":
            t = ids.get(n.attrs.get("xlink:href", "#")[1:])
            if t is not None:
                for x in t.iter():
                    targets.add(id(x))
    out = []

    def walk(n, inh, dn):
        if n.kind != "el":
            return
        own = own_props(n)
        if id(n) in targets:
            for k, v in own.items():
                if k in _INH and _num_eq(v, inh.get(k, _INIT[k])):
                    out.append((n, k))
                if k == "display" and v == "none" and dn:
                    out.append((n, k))
        inh2 = dict(inh)
        for k in _INH:
            if k in own:
                inh2[k] = own[k]
        dn2 = dn or own.get("display") == "none"
        for c in n.children:
            walk(c, inh2, dn2)

    walk(root, {}, False)
    return out


def sanitize_redundant_explicit(root):
    """Remove the redundant declarations (rendering of the original context is unchanged)."""
    n = 0
    for node, k in redundant_explicit(root):
        _del_prop(node, k)
        n += 1
    return n


def paint_doc(rng, allow_redundant=False, root_opacity=False, **opt):
    """C05 profile: cascade of fill/opacity/display via attributes and styles, overlapping geometry."""
    g = Gen(rng, paint=True, nested_svg=False, unique_fills=False, **opt)
    r = rng
    body = []
    # overlapping translucent group patterns on top of the random structure
    for _ in range(r.randint(1, 3)):
        body.append(g.node(0))
    for _ in range(r.randint(1, 2)):
        grp = Node("g")
        g.cascade_attrs(grp, leaf=False)
        if "opacity" not in own_props(grp) and r.random() < 0.7:
            grp.attrs["opacity"] = r.choice(("0.5", "0.4", "0.7"))
        x, y = g.num(5, 50), g.num(5, 50)
        if r.random() < 0.5:
            for i in range(r.randint(1, 3)):
                s = Node("rect", {"x": fnum(x + 12 * i), "y": fnum(y + 9 * i), "width": fnum(g.num(20, 40)), "height": fnum(g.num(20, 40))})
                g.cascade_attrs(s, leaf=True)
                grp.children.append(s)
        else:
            # varied overlap structure: wide banners, tall bars, small squares - some pairs overlap, some do not
            for i in range(r.randint(3, 5)):
                k = r.random()
                if k < 0.3:
                    a = {"x": fnum(g.num(0, 10)), "y": fnum(g.num(0, 85)), "width": fnum(g.num(70, 95)), "height": fnum(g.num(6, 14))}
                elif k < 0.5:
                    a = {"x": fnum(g.num(0, 85)), "y": fnum(g.num(0, 10)), "width": fnum(g.num(6, 14)), "height": fnum(g.num(70, 95))}
                else:
                    a = {"x": fnum(g.num(5, 70)), "y": fnum(g.num(5, 70)), "width": fnum(g.num(12, 30)), "height": fnum(g.num(12, 30))}
                s = Node("rect", a)
                g.cascade_attrs(s, leaf=True)
                grp.children.append(s)
            g.f["translucent_group_varied_overlap"] += 1
        g.f["translucent_group_overlap" if len(grp.children) > 1 else "translucent_group_single"] += 1
        if r.random() < 0.3:
            inner = Node("g", {"opacity": r.choice(("0.5", "0.8"))}, [grp])
            g.f["nested_translucent"] += 1
            if r.random() < 0.6:
                # the outer translucent group holds the inner group plus one or two shapes that overlap it:
                # neither level can be flattened without changing how the overlap composites
                for _ in range(r.randint(1, 2)):
                    s = Node("rect", {"x": fnum(x + g.num(-4, 14)), "y": fnum(y + g.num(-4, 12)), "width": fnum(g.num(20, 45)), "height": fnum(g.num(20, 45))})
                    g.cascade_attrs(s, leaf=True)
                    inner.children.insert(r.randint(0, len(inner.children)), s)
                g.f["nested_translucent_with_sibling"] += 1
            grp = inner
        g.maybe_id(grp, "g", p=0.3)
        body.append(grp)
    if g.idpool and r.random() < 0.7:
        body.append(g.use_node())
    root_attrs = {}
    rr = Node("svg")
    if r.random() < 0.4:
        g.cascade_attrs(rr, leaf=False)
        for k in ("opacity", "display"):
            _del_prop(rr, k)
        root_attrs = rr.attrs
        g.f["root_paint"] += 1
    if root_opacity:
        root_attrs["opacity"] = r.choice(("0.5", "0.25"))
        g.f["root_opacity"] += 1
    root = g.document(body_nodes=body, root_attrs=root_attrs)
    if not allow_redundant:
        g.f["sanitized_redundant"] += sanitize_redundant_explicit(root)
    else:
        g.f["redundant_explicit"] += len(redundant_explicit(root))
    return to_xml(root), g.f, root


def redundant_doc(rng):
    """Dedicated sub-workload for the known-finding class: a use target that explicitly repeats
    the value its original ancestors provide, instanced under a use that provides another value."""
    g = Gen(rng, paint=True, nested_svg=False, unique_fills=False)
    r = rng
    prop, v, v2 = r.choice((("fill", "green", "navy"), ("fill", "black", "red"), ("fill-opacity", "0.5", "1"), ("fill-rule", "evenodd", "nonzero"),
                            ("fill", "orange", "teal")))
    grp = Node("g", {} if (prop, v) == ("fill", "black") else {prop: v})
    if prop == "fill-rule":
        shape = Node("path", {"d": gp.render(gs.nested(30, 30, 20, 10, same_direction=True))})
    else:
        shape = Node("rect", {"x": fnum(g.num(5, 30)), "y": fnum(g.num(5, 30)), "width": fnum(g.num(20, 40)), "height": fnum(g.num(20, 40))})
    shape.attrs["id"] = "t"
    if r.random() < 0.5:
        shape.attrs[prop] = v
    else:
        shape.attrs["style"] = f"{prop}:{v}"
    grp.children.append(shape)
    if r.random() < 0.5:
        grp.children.append(g.painted_shape())
    use = Node("use", {"xlink:href": "#t", "x": fnum(g.num(30, 50)), "y": fnum(g.num(30, 50)), prop: v2})
    body = [grp, use]
    if r.random() < 0.5:
        body.insert(0, g.painted_shape())
    root = g.document(body_nodes=body)
    g.f["redundant_explicit_planted"] += 1
    return to_xml(root), g.f, root


STROKE_COLORS = ["navy", "maroon", "teal", "purple", "olive", "#333", "#905", "#069"]


def stroke_props(g, r):
    p = {"stroke": r.choice(STROKE_COLORS), "stroke-width": fnum(g.num(2, 12, 1))}
    if r.random() < 0.7:
        p["stroke-linecap"] = r.choice(("butt", "round", "square"))
    if r.random() < 0.7:
        p["stroke-linejoin"] = r.choice(("miter", "round", "bevel"))
    if r.random() < 0.5:
        p["stroke-miterlimit"] = fnum(r.choice((1, 1.5, 2, 4, 10)))
    if r.random() < 0.45:
        n = r.choice((1, 2, 2, 3, 4))
        p["stroke-dasharray"] = r.choice((",", " ", ", ")).join(fnum(g.num(2, 14, 1) + 1) for _ in range(n))
        g.f["dash_odd" if n % 2 else "dash_even"] += 1
        if r.random() < 0.6:
            p["stroke-dashoffset"] = fnum(r.choice((g.num(0, 10, 1), -g.num(0, 10, 1), g.num(20, 60, 1), -g.num(20, 60, 1))))
            g.f["dash_offset"] += 1
    return p


def stroke_doc(rng, hairpins=False):
    """C04 profile.  Curved segments keep their radius of curvature above the largest stroke
    width unless `hairpins` (known-finding class: Skia's stroker at tight curvature)."""
    g = Gen(rng, strokes=True, nested_svg=False, unique_fills=True, use=True, display_none=False)
    r = rng
    body = []

    def geometry():
        k = r.random()
        if k < 0.3:
            pts = [(g.num(10, 90, 0), g.num(10, 90, 0)) for _ in range(r.randint(2, 5))]
            tag = "polyline" if r.random() < 0.6 else "polygon"
            if tag == "polygon" and len(pts) < 3 and not hairpins:
                # a two-point polygon retraces its own edge: known engine class, planted only with `hairpins`
                pts.append((g.num(10, 90, 0), g.num(10, 90, 0)))
            if tag == "polygon" and len(pts) < 3:
                g.f["retraced_edge"] += 1
            n = Node(tag, {"points": " ".join(f"{fnum(x)},{fnum(y)}" for x, y in pts)})
        elif k < 0.5:
            n = g.shape(kinds=("rect", "rrect", "circle", "ellipse", "line"))
            if not hairpins:
                # keep every radius of curvature above the largest stroke width (12)
                if n.tag == "circle":
                    n.attrs["r"] = fnum(g.num(14, 22))
                elif n.tag == "ellipse":
                    n.attrs["rx"] = fnum(g.num(18, 24))
                    n.attrs["ry"] = fnum(g.num(18, 24))
                elif "rx" in n.attrs:
                    n.attrs["width"] = fnum(g.num(40, 50))
                    n.attrs["height"] = fnum(g.num(40, 50))
                    n.attrs["rx"] = fnum(g.num(15, 19))
                    n.attrs.pop("ry", None)
        elif k < 0.7:
            # curved open / closed path
            p0 = (g.num(10, 40, 0), g.num(10, 90, 0))
            d = f"M{fnum(p0[0])},{fnum(p0[1])}"
            for _ in range(r.randint(1, 3)):
                c = r.choice("CQLA")
                n_ = lambda: fnum(g.num(5, 95, 0))
                if c == "A":
                    # rotated, non-circular arcs, often with radii too small for the chord (they get scaled up)
                    d += (f" A{unum(g.num(22, 30, 0))} {unum(g.num(22, 30, 0))} {fnum(r.choice((0, 30, 45, 60, 120, -20, g.num(-180, 180, 0))))} "
                          f"{r.randint(0, 1)} {r.randint(0, 1)} {n_()},{n_()}")
                    g.f["stroked_arc"] += 1
                elif c == "C":
                    d += f" C{n_()},{n_()} {n_()},{n_()} {n_()},{n_()}"
                elif c == "Q":
                    d += f" Q{n_()},{n_()} {n_()},{n_()}"
                else:
                    d += f" L{n_()},{n_()}"
            if r.random() < 0.3:
                d += " Z"
            from picomon.ref import pathgrammar as _G, stroke as _RSK

            if not hairpins:
                for _ in range(12):
                    if _RSK.min_curvature_radius(_G.parse(d)) >= 14:
                        break
                    # gentler curve: control points close to the chord
                    x0, y0 = g.num(10, 30, 0), g.num(20, 80, 0)
                    x1, y1 = x0 + g.num(40, 60, 0), y0 + g.num(-15, 15, 0)
                    if r.random() < 0.5:
                        d = f"M{fnum(x0)},{fnum(y0)} Q{fnum((x0 + x1) / 2)},{fnum(y0 + g.num(-25, 25, 0))} {fnum(x1)},{fnum(y1)}"
                    else:
                        d = (f"M{fnum(x0)},{fnum(y0)} C{fnum(x0 + 15)},{fnum(y0 + g.num(-20, 20, 0))} "
                             f"{fnum(x1 - 15)},{fnum(y1 + g.num(-20, 20, 0))} {fnum(x1)},{fnum(y1)}")
                else:
                    d = f"M{fnum(g.num(10, 40, 0))},{fnum(g.num(10, 90, 0))} L{fnum(g.num(50, 90, 0))},{fnum(g.num(10, 90, 0))}"
            else:
                g.f["hairpin_allowed"] += 1
            n = Node("path", {"d": d})
        else:
            # multi-subpath
            d = ""
            for _ in range(2):
                pts = [(g.num(10, 90, 0), g.num(10, 90, 0)) for _ in range(r.randint(2, 4))]
                d += "M" + " L".join(f"{fnum(x)},{fnum(y)}" for x, y in pts) + (" Z " if r.random() < 0.4 else " ")
            n = Node("path", {"d": d.strip()})
            g.f["multi_subpath"] += 1
        return n

    def stroked(inherited=False):
        n = geometry()
        props = {} if inherited else stroke_props(g, r)
        mode = r.random()
        if mode < 0.45:
            props["fill"] = "none"
            g.f["stroke_only"] += 1
        elif mode < 0.8:
            props["fill"] = g.color()
            g.f["fill_and_stroke"] += 1
        else:
            # translucent: only one piece visible
            if r.random() < 0.5:
                props["fill"] = "none"
                props[r.choice(("stroke-opacity", "opacity"))] = r.choice(("0.5", "0.25"))
            else:
                props["fill"] = g.color()
                props["stroke"] = "none"
                props[r.choice(("fill-opacity", "opacity"))] = "0.5"
            g.f["translucent_single_piece"] += 1
        style = []
        for k, v in props.items():
            if r.random() < 0.3:
                style.append(f"{k}:{v}")
                g.f["stroke_prop_style"] += 1
            else:
                n.attrs[k] = v
        if style:
            n.attrs["style"] = ";".join(style)
        if r.random() < 0.35:
            n.attrs["transform"] = g.transform()
            g.f["stroked_shape_transform"] += 1
        return n

    for _ in range(r.randint(1, 3)):
        body.append(stroked())
    if r.random() < 0.6:
        grp = Node("g", stroke_props(g, r))
        g.f["stroke_inherited_from_group"] += 1
        if r.random() < 0.7:
            k = r.random()
            if k < 0.4:
                grp.attrs["transform"] = f"scale({fnum(g.num(0.5, 1.6, 2))} {fnum(g.num(0.5, 1.6, 2))})"
                g.f["nonuniform_scale"] += 1
            elif k < 0.6:
                grp.attrs["transform"] = f"skewX({fnum(g.num(-30, 30, 0))})"
                g.f["skew"] += 1
            else:
                grp.attrs["transform"] = g.transform()
        for _ in range(r.randint(1, 2)):
            grp.children.append(stroked(inherited=r.random() < 0.7))
        if r.random() < 0.4:
            grp.children[0].attrs = {"id": "st1", **grp.children[0].attrs}
            body.append(grp)
            u = Node("use", {"xlink:href": "#st1", "x": fnum(g.num(-20, 20)), "y": fnum(g.num(-20, 20))})
            if r.random() < 0.5:
                u.attrs.update(stroke_props(g, r))
            g.f["use_of_stroked"] += 1
            body.append(u)
        else:
            body.append(grp)
    root_attrs = {}
    if r.random() < 0.2:
        root_attrs = {"stroke-linecap": r.choice(("round", "square")), "stroke-linejoin": r.choice(("round", "bevel"))}
        g.f["stroke_inherited_from_root"] += 1
    root = g.document(body_nodes=body, root_attrs=root_attrs)
    sanitize_redundant_explicit(root)
    return to_xml(root), g.f, root


# ---------------------------------------------------------------- gradients (C06)

STOP_COLORS = ["red", "blue", "lime", "yellow", "black", "white", "orange", "purple", "#123456", "#abcdef", "teal"]


def _stops(g, r, n=None):
    n = n or r.randint(2, 4)
    offs = sorted(round(r.uniform(0, 1), 2) for _ in range(n))
    offs[0] = 0.0 if r.random() < 0.6 else offs[0]
    out = []
    for o in offs:
        a = {"offset": (f"{fnum(o * 100)}%" if r.random() < 0.3 else fnum(o)), "stop-color": r.choice(STOP_COLORS)}
        if r.random() < 0.25:
            a["stop-opacity"] = r.choice(("0.5", "0.25", "0.8"))
        out.append(Node("stop", a))
    if r.random() < 0.15:
        # labelled stops as drawing tools write them: ids and other non-stop attributes
        kind = r.choice(("id", "id", "id+data", "data"))
        for st in out:
            if "id" in kind:
                st.attrs["id"] = g.new_id("stop")
            if "data" in kind:
                st.attrs["data-name"] = r.choice(("a", "b", "stop"))
                if r.random() < 0.5:
                    st.attrs["class"] = "st" + str(r.randint(0, 3))
        g.f["grad_labelled_stops"] += 1
    return out


def _grad_transform(g, r):
    k = r.random()
    if k < 0.3:
        return f"translate({fnum(g.num(-10, 10))} {fnum(g.num(-10, 10))})"
    if k < 0.5:
        return f"rotate({fnum(g.num(-80, 80, 0))})"
    if k < 0.65:
        return f"scale({fnum(g.num(0.5, 2, 2))} {fnum(g.num(0.5, 2, 2))})"
    if k < 0.75:
        return f"skewX({fnum(g.num(-30, 30, 0))})"
    return g.transform()


def gradient_node(g, r, gid, units=None, kind=None, with_stops=True, with_geom=True):
    kind = kind or r.choice(("linearGradient", "radialGradient"))
    n = Node(kind, {"id": gid})
    units = units or r.choice(("objectBoundingBox", "userSpaceOnUse", None))
    if units:
        n.attrs["gradientUnits"] = units
    bb = units != "userSpaceOnUse"
    pct = r.random() < 0.4

    def L(v, tiny_ok=True):  # v in 0..1 of the reference box
        # (never for radii: a radius of 3e-6 with a reflect / repeat spread is a colour field no comparison can judge)
        if tiny_ok and r.random() < 0.04:
            # a tiny non-zero coordinate: serialised in exponent form by the conversion
            g.f["grad_tiny_coordinate"] += 1
            return r.choice(("0.00002", "2e-05", "0.00005", "3E-6"))
        if bb:
            return f"{fnum(round(v * 100, 1))}%" if pct else fnum(round(v, 3))
        return f"{fnum(round(v * 100, 1))}%" if pct else fnum(round(v * 100, 1))

    if with_geom:
        if kind == "linearGradient":
            for k in ("x1", "y1", "x2", "y2"):
                if r.random() < 0.8:
                    # (tiny values only for the start point: a tiny x2 / y2 next to a default start makes the whole
                    #  gradient vector tiny - with a reflect / repeat spread a colour field below any resolution)
                    n.attrs[k] = L(r.uniform(0, 1), tiny_ok=k in ("x1", "y1"))
            if n.attrs.get("x1", "0") == n.attrs.get("x2", "1") and n.attrs.get("y1", "0") == n.attrs.get("y2", "0"):
                n.attrs["x2"] = L(1.0)
                n.attrs["x1"] = L(0.0)
        else:
            cx, cy, rr = r.uniform(0.3, 0.7), r.uniform(0.3, 0.7), r.uniform(0.3, 0.6)
            if r.random() < 0.8:
                n.attrs["cx"] = L(cx)
                n.attrs["cy"] = L(cy)
            else:
                cx = cy = 0.5
            if r.random() < 0.8:
                n.attrs["r"] = L(rr, tiny_ok=False)
            else:
                rr = 0.5
            if r.random() < 0.4:
                # focal point strictly inside the end circle
                a = r.uniform(0, 6.28)
                d = r.uniform(0, 0.6) * rr
                n.attrs["fx"] = L(cx + d * math.cos(a), tiny_ok=False)
                n.attrs["fy"] = L(cy + d * math.sin(a), tiny_ok=False)
                g.f["grad_focal"] += 1
            if r.random() < 0.2:
                n.attrs["fr"] = L(r.uniform(0.02, 0.2) * rr, tiny_ok=False)
                g.f["grad_fr"] += 1
    if r.random() < 0.5:
        n.attrs["gradientTransform"] = _grad_transform(g, r)
        g.f["grad_transform"] += 1
    if r.random() < 0.5:
        n.attrs["spreadMethod"] = r.choice(("pad", "reflect", "repeat"))
        g.f["grad_spread_" + n.attrs["spreadMethod"]] += 1
    if with_stops:
        n.children = _stops(g, r)
    g.f["grad_" + kind] += 1
    g.f["grad_units_" + (units or "default")] += 1
    if pct:
        g.f["grad_percent"] += 1
    return n


def gradient_doc(rng, template_before_user=False):
    """C06 profile.  Known-finding class avoided unless template_before_user: a gradient that is
    declared *before* the template it hrefs (document order dependence)."""
    g = Gen(rng, gradients=True, nested_svg=False, unique_fills=True, use=False, display_none=False)
    r = rng
    grads = []
    ids = []
    for i in range(r.randint(1, 3)):
        gid = f"gr{i}"
        if ids and r.random() < 0.45:
            # href template chain: this gradient takes attributes and/or stops from an earlier one
            tmpl = r.choice(ids)
            tn = next(x for x in grads if x.attrs["id"] == tmpl)
            n = gradient_node(g, r, gid, kind=r.choice((tn.tag, tn.tag, "linearGradient", "radialGradient")),
                              with_stops=r.random() < 0.4, with_geom=r.random() < 0.6)
            n.attrs["xlink:href"] = f"#{tmpl}"
            g.f["grad_href"] += 1
            if not n.children:
                g.f["grad_href_stops"] += 1
            if template_before_user:
                grads.insert(grads.index(tn), n)  # user first, template after (known finding class)
                g.f["grad_user_before_template"] += 1
            else:
                grads.append(n)
        else:
            n = gradient_node(g, r, gid)
            grads.append(n)
        ids.append(gid)
    g.defs.extend(grads)
    body = []
    for _ in range(r.randint(2, 4)):
        k = r.random()
        if k < 0.35:
            s = Node("rect", {"x": fnum(g.num(5, 50)), "y": fnum(g.num(5, 50)), "width": fnum(g.num(20, 45)), "height": fnum(g.num(20, 45))})
        elif k < 0.55:
            s = Node("circle", {"cx": fnum(g.num(25, 70)), "cy": fnum(g.num(25, 70)), "r": fnum(g.num(10, 25))})
        elif k < 0.75:
            s = Node("ellipse", {"cx": fnum(g.num(25, 70)), "cy": fnum(g.num(25, 70)), "rx": fnum(g.num(10, 25)), "ry": fnum(g.num(10, 25))})
        else:
            s = Node("path", {"d": gp.render(gs.blob(r, g.num(30, 70), g.num(30, 70), g.num(15, 28)))})
        s.attrs["fill"] = f"url(#{r.choice(ids)})"
        tf = r.random()
        if tf < 0.3:
            s.attrs["transform"] = f"translate({fnum(g.num(-15, 15))} {fnum(g.num(-15, 15))})"
            g.f["grad_shape_translate"] += 1
        elif tf < 0.6:
            s.attrs["transform"] = g.transform()
            g.f["grad_shape_transform"] += 1
        if r.random() < 0.3:
            grp = Node("g", {"transform": g.transform()}, [s])
            g.f["grad_group_transform"] += 1
            s = grp
        body.append(s)
    if r.random() < 0.35:
        # several shapes with different bounding boxes share one gradient under one common transform
        gid = r.choice(ids)
        grp = Node("g", {"transform": r.choice((g.transform(), f"translate({fnum(g.num(-10, 10))} {fnum(g.num(-10, 10))})"))})
        for _ in range(r.randint(2, 3)):
            grp.children.append(Node("rect", {"x": fnum(g.num(5, 60)), "y": fnum(g.num(5, 60)), "width": fnum(g.num(10, 40)), "height": fnum(g.num(10, 40)),
                                              "fill": f"url(#{gid})"}))
        body.append(grp)
        g.f["grad_shared_under_one_transform"] += 1
    if r.random() < 0.3:
        # the same gradient also used by an invisible shape
        body.append(Node("rect", {"x": "1", "y": "1", "width": "5", "height": "5", "fill": f"url(#{r.choice(ids)})", "opacity": "0"}))
        g.f["grad_invisible_user"] += 1
    vb = "0 0 100 100"
    if r.random() < 0.4:
        # percentages of a userSpaceOnUse gradient refer to the viewport: width for x, height for y,
        # the normalised diagonal for radii - only a non-square viewBox tells them apart
        vb = r.choice(("0 0 100 60", "0 0 70 100", "0 0 120 80", "-10 -5 110 70"))
        g.f["grad_nonsquare_viewbox"] += 1
    root = g.document(body_nodes=body, viewbox=vb)
    if r.random() < 0.2 and root.children and root.children[0].tag == "defs":
        # gradients may be declared after the shapes that use them
        root.children.append(root.children.pop(0))
        g.f["grad_defs_after_users"] += 1
    return to_xml(root), g.f, root


# ---------------------------------------------------------------- mixed documents (C01, C07, C08, C14, C16)

XHTML = "http://www.w3.org/1999/xhtml"


def unsupported_node(g, r):
    """A self-contained subtree of an element picosvg does not support."""
    k = r.choice(("filter", "mask", "image", "text", "style", "symbol", "marker", "pattern", "foreignObject", "a", "switch", "script", "animate"))
    rect = lambda: Node("rect", {"x": fnum(g.num(0, 50)), "y": fnum(g.num(0, 50)), "width": fnum(g.num(5, 30)), "height": fnum(g.num(5, 30)), "fill": g.color()})
    if k == "filter":
        n = Node("filter", {"id": g.new_id("f")}, [Node("feGaussianBlur", {"stdDeviation": "2"})])
    elif k == "mask":
        n = Node("mask", {"id": g.new_id("m")}, [rect()])
    elif k == "image":
        n = Node("image", {"x": "1", "y": "1", "width": "10", "height": "10", "xlink:href": "data:image/png;base64,AAAA"})
    elif k == "text":
        n = Node("text", {"x": fnum(g.num(0, 50)), "y": fnum(g.num(10, 50))}, [Node("tspan", {}, [], "two")], "one ")
    elif k == "style":
        n = Node("style", {"type": "text/css"}, [], ".a{fill:red}")
    elif k == "symbol":
        n = Node("symbol", {"id": g.new_id("sy"), "viewBox": "0 0 10 10"}, [rect()])
    elif k == "marker":
        n = Node("marker", {"id": g.new_id("mk"), "markerWidth": "4", "markerHeight": "4"}, [rect()])
    elif k == "pattern":
        n = Node("pattern", {"id": g.new_id("pt"), "width": "10", "height": "10", "patternUnits": "userSpaceOnUse"}, [rect()])
    elif k == "foreignObject":
        n = Node("foreignObject", {"x": "0", "y": "0", "width": "20", "height": "20"}, [Node("div", {"xmlns": XHTML}, [], "html")])
    elif k == "a":
        n = Node("a", {"xlink:href": "http://example.com/"}, [rect()])
    elif k == "switch":
        n = Node("switch", {}, [rect()])
    elif k == "script":
        n = Node("script", {}, [], "var a = 1;")
    else:
        n = Node("animate", {"attributeName": "x", "from": "0", "to": "10", "dur": "1s"})
    n.flag = "unsupported"
    g.f["unsupported_" + k] += 1
    return n


NOISE_KINDS = ("comment", "pi", "title", "desc", "metadata", "foreign_el", "foreign_attr", "anon_symbol", "wrapper_g", "whitespace")


def noise_node(g, r, kind):
    if kind == "comment":
        return Node("", text=" a comment -- not ".replace("--", "- -"), kind="comment", flag="noise")
    if kind == "pi":
        return Node("xml-stylesheet", text='href="a.css" type="text/css"', kind="pi", flag="noise")
    if kind == "title":
        return Node("title", {}, [], "A title", flag="noise")
    if kind == "desc":
        if r.random() < 0.25:
            # descriptive elements nested in one another
            g.f["noise_nested_descriptive"] += 1
            return Node("desc", {}, [Node("title", {}, [], "inner title")], flag="noise")
        return Node("desc", {}, [], "A description", flag="noise")
    if kind == "metadata":
        kids = [Node("rdf:RDF", {"xmlns:rdf": "http://www.w3.org/1999/02/22-rdf-syntax-ns#"}, [Node("rdf:Description", {"rdf:about": ""})])]
        if r.random() < 0.4:
            kids.insert(r.randint(0, 1), Node(r.choice(("desc", "title")), {}, [], "described"))
            g.f["noise_nested_descriptive"] += 1
        return Node("metadata", {}, kids, flag="noise")
    if kind == "foreign_el" and r.random() < 0.35:
        g.f["noise_odd_namespace"] += 1
        return Node("odd:info", {"odd:level": "3"}, [Node("odd:item", {}, [], "x")], flag="noise")
    if kind == "foreign_el":
        return Node("sodipodi:namedview", {"pagecolor": "#ffffff", "inkscape:zoom": "1"}, [Node("inkscape:grid", {"type": "xygrid"})], flag="noise")
    if kind == "anon_symbol":
        return Node("symbol", {}, [Node("rect", {"x": "1", "y": "2", "width": "30", "height": "40", "fill": "red"})], flag="noise")
    raise ValueError(kind)


FOREIGN_NS = {"xmlns:inkscape": "http://www.inkscape.org/namespaces/inkscape", "xmlns:sodipodi": "http://sodipodi.sourceforge.net/DTD/sodipodi-0.dtd",
              # a namespace name is any URI reference
              "xmlns:odd": "http://example.org/~tool/ns?version=1.2+beta%20@x;y=(1)"}


def mixed_doc(rng, unsupported=True, noise=True, text_only_unsupported=False, **opt):
    """Everything at once (for grammar / idempotence / reference / determinism checks)."""
    o = dict(clips=rng.random() < 0.5, strokes=rng.random() < 0.5, paint=rng.random() < 0.5, gradients=rng.random() < 0.6,
             unique_fills=False, max_depth=rng.choice((2, 3)))
    o.update(opt)
    g = Gen(rng, **o)
    r = rng
    root = g.document()
    if r.random() < 0.4:
        ra = Node("svg")
        g.cascade_attrs(ra, leaf=False)
        for k in ("opacity", "display"):
            _del_prop(ra, k)
        root.attrs.update(ra.attrs)
        g.f["root_paint"] += 1
    if r.random() < 0.3:
        root.attrs["width"] = "100"
        root.attrs["height"] = "100"
    nuns = 0
    if unsupported and r.random() < 0.5:
        for _ in range(r.randint(1, 3)):
            n = unsupported_node(g, r)
            if text_only_unsupported and n.tag != "text":
                continue
            holders = [x for x in root.iter() if x.kind == "el" and x.tag in ("svg", "g", "defs") and x.flag is None]
            h = r.choice(holders)
            if h.tag == "defs" and n.tag in ("text", "a", "switch", "image", "foreignObject"):
                h = root
            h.children.insert(r.randint(0, len(h.children)), n)
            nuns += 1
    if noise and r.random() < 0.5:
        root.attrs.update(FOREIGN_NS)
        insert_noise(g, r, root, r.randint(1, 6))
    sanitize_redundant_explicit(root)
    return to_xml(root), g.f, root, {"unsupported": nuns}


def insert_noise(g, r, root, count):
    """Insert `count` ignorable items at random tree positions; returns descriptions."""
    done = []
    for _ in range(count):
        kind = r.choice(NOISE_KINDS)
        els = [x for x in root.iter() if x.kind == "el" and x.flag is None]
        if kind == "foreign_attr":
            t = r.choice(els)
            t.attrs["inkscape:label"] = "layer"
            if r.random() < 0.35:
                t.attrs["odd:version"] = "1.2"
                g.f["noise_odd_namespace"] += 1
            if r.random() < 0.5:
                t.attrs["sodipodi:nodetypes"] = "cccc"
            done.append((kind, t.tag))
        elif kind == "whitespace":
            holders = [x for x in els if x.children and x.tag in ("svg", "g", "defs", "clipPath", "linearGradient", "radialGradient")]
            if holders:
                h = r.choice(holders)
                h.children.insert(r.randint(0, len(h.children)), Node("", text=r.choice(("\n", "  ", "\n\t ")), kind="raw", flag="noise"))
                done.append((kind, h.tag))
        elif kind == "wrapper_g":
            holders = [x for x in els if x.children and x.tag in ("svg", "g", "defs")]
            if holders:
                h = r.choice(holders)
                i = r.randrange(len(h.children))
                j = r.randint(i + 1, min(len(h.children), i + 3))
                sub = h.children[i:j]
                if all(c.kind == "el" and c.flag is None for c in sub) and not (h.tag == "svg" and any(c.tag == "defs" for c in sub) and False):
                    w = Node("g", {}, sub, flag="noise_wrapper")
                    h.children[i:j] = [w]
                    done.append((kind, h.tag))
        else:
            allowed = ("svg", "g", "defs")
            if kind in ("comment", "pi"):
                allowed = ("svg", "g", "defs", "clipPath", "linearGradient", "radialGradient")
            elif kind in ("title", "desc"):
                allowed = ("svg", "g", "defs", "clipPath", "linearGradient", "radialGradient", "path", "rect", "circle")
            holders = [x for x in els if x.tag in allowed]
            h = r.choice(holders)
            if h.tag in ("path", "rect", "circle") and h.children:
                continue
            h.children.insert(r.randint(0, len(h.children)), noise_node(g, r, kind))
            done.append((kind, h.tag))
        g.f["noise_" + kind] += 1
    return done


def strip_flagged(root, flags=("unsupported",)):
    r = root.copy()

    def rec(n):
        n.children = [c for c in n.children if c.flag not in flags]
        for c in n.children:
            rec(c)

    rec(r)
    return r


def use_clip_on_transformed_target_doc(rng):
    """Dedicated sub-workload for the known-finding class: clip-path on a <use> whose target
    carries its own transform."""
    g = Gen(rng, clips=True, nested_svg=False, use=True)
    r = rng
    g.make_clips()
    tgt = g.shape(closed_only=True)
    tgt.attrs["fill"] = g.color()
    tgt.attrs["transform"] = r.choice((f"translate({fnum(g.num(5, 25))} {fnum(g.num(-10, 10))})", g.transform()))
    tgt.attrs = {"id": "tt", **tgt.attrs}
    u = Node("use", {"xlink:href": "#tt", "clip-path": f"url(#{r.choice(g.clipids)})"})
    if r.random() < 0.5:
        u.attrs["x"] = fnum(g.num(-10, 10))
        u.attrs["y"] = fnum(g.num(-10, 10))
    if r.random() < 0.3:
        u.attrs["transform"] = g.transform()
    body = [u]
    if r.random() < 0.5:
        g.defs.append(tgt)
    else:
        body.insert(0, tgt)
    if r.random() < 0.5:
        body.append(g.painted_shape())
    root = g.document(body_nodes=body)
    # document() would call make_clips again when clips=True; defs were already filled
    g.f["use_clip_on_transformed_target"] += 1
    return to_xml(root), g.f, root


def expand_clipped_uses_of_transformed_targets(root):
    """Intervention: replace every <use clip-path=...> whose target has its own transform by the
    group the SVG use semantics generate (transform = use.transform translate(x,y), clip-path
    on the group, copy of the target inside).  Returns None if there is no such use."""
    r = root.copy()
    ids = {n.attrs["id"]: n for n in r.iter() if n.kind == "el" and "id" in n.attrs}
    hit = False

    def rec(n):
        nonlocal hit
        for i, c in enumerate(n.children):
            if c.kind == "el" and c.tag == "use" and "clip-path" in c.attrs:
                t = ids.get(c.attrs.get("xlink:href", "#")[1:])
                if t is not None and "transform" in t.attrs:
                    cp = t.copy()
                    for x in cp.iter():
                        x.attrs.pop("id", None)
                    tf = (c.attrs.get("transform", "") + f" translate({c.attrs.get('x', '0')} {c.attrs.get('y', '0')})").strip()
                    a = {k: v for k, v in c.attrs.items() if k not in ("x", "y", "width", "height", "transform", "xlink:href")}
                    a["transform"] = tf
                    n.children[i] = Node("g", a, [cp])
                    hit = True
                    continue
            if c.kind == "el":
                rec(c)

    rec(r)
    return r if hit else None


_NUMERIC_INH = ("stroke-width", "stroke-miterlimit", "stroke-dashoffset", "stroke-opacity", "fill-opacity")


def _canonical_number(text):
    """The spelling the pinned code itself writes for a number (`ntos(float(text))`)."""
    try:
        v = float(text)
    except ValueError:
        return None
    return str(int(v)) if v.is_integer() else str(v)


def simulate_inherited_made_explicit(root):
    """Bug simulation of a known mechanism in the source: an element that is the target of a <use> and
    inherits a numeric property from an ancestor whose value is not spelled the way the converter itself
    spells numbers (".5", "5e-1", "+5", "5.0" ...) gets that value as an explicit attribute when the shapes
    are written back, so the instances of the <use> carry the value of the target's ORIGINAL context.
    Returns the rewritten tree, or None if nothing in the document is affected."""
    r = root.copy()
    targets = set()
    for n in r.iter():
        if n.kind == "el" and n.tag == "use":
            h = n.attrs.get("xlink:href") or n.attrs.get("href") or ""
            if h.startswith("#"):
                targets.add(h[1:])
    hit = False

    def rec(n, inherited):
        nonlocal hit
        mine = dict(inherited)
        for k, v in own_props(n).items():
            if k in _NUMERIC_INH:
                mine[k] = v
        if n.kind == "el" and n.tag not in ("g", "svg", "defs", "use", "clipPath") and any(x.attrs.get("id") in targets for x in _self_and_ancestors.get(id(n), [n])):
            own = own_props(n)
            for k, v in inherited.items():
                c = _canonical_number(v)
                if k not in own and c is not None and c != v.strip():
                    n.attrs[k] = c
                    hit = True
        for c in n.children:
            if c.kind == "el":
                rec(c, mine)

    # a shape is affected if it, or a group around it, is what a use points at
    _self_and_ancestors = {}

    def chain(n, anc):
        _self_and_ancestors[id(n)] = anc + [n]
        for c in n.children:
            if c.kind == "el":
                chain(c, anc + [n])

    chain(r, [])
    rec(r, {})
    return r if hit else None


def simulate_clip_moved_onto_target(root):
    """Bug simulation of the same mechanism in the source: every <use clip-path=...> whose target has
    its own transform becomes a group (use transform, translate(x,y), the use's other attributes)
    around a copy of the target that carries the clip-path itself - so the clip is placed in the
    target's transformed coordinate system, which is what the pinned code does.  Returns None if
    there is no such use or a target has a clip-path of its own."""
    r = root.copy()
    ids = {n.attrs["id"]: n for n in r.iter() if n.kind == "el" and "id" in n.attrs}
    hit = False
    bad = False

    def rec(n):
        nonlocal hit, bad
        for i, c in enumerate(n.children):
            if c.kind == "el" and c.tag == "use" and "clip-path" in c.attrs:
                t = ids.get(c.attrs.get("xlink:href", "#")[1:])
                if t is not None and "transform" in t.attrs:
                    if "clip-path" in t.attrs or "clip-path" in (t.attrs.get("style") or ""):
                        bad = True
                        continue
                    cp = t.copy()
                    for x in cp.iter():
                        x.attrs.pop("id", None)
                    cp.attrs["clip-path"] = c.attrs["clip-path"]
                    tf = (c.attrs.get("transform", "") + f" translate({c.attrs.get('x', '0')} {c.attrs.get('y', '0')})").strip()
                    a = {k: v for k, v in c.attrs.items() if k not in ("x", "y", "width", "height", "transform", "xlink:href", "clip-path")}
                    a["transform"] = tf
                    n.children[i] = Node("g", a, [cp])
                    hit = True
                    continue
            if c.kind == "el":
                rec(c)

    rec(r)
    return r if hit and not bad else None


def from_xml(text):
    """Parse an XML text produced by to_xml back into a Node tree (comments / PIs kept)."""
    import xml.etree.ElementTree as ET

    parser = ET.XMLParser(target=ET.TreeBuilder(insert_comments=True, insert_pis=True))
    root = ET.fromstring(text, parser=parser)
    nsmap = {SVGNS: "", XLINKNS: "xlink"}
    decl = dict(__import__("re").findall(r'xmlns:(\w+)="([^"]+)"', text))
    for pfx, uri in decl.items():
        nsmap.setdefault(uri, pfx)

    def q(name):
        if isinstance(name, str) and name.startswith("{"):
            uri, local = name[1:].split("}", 1)
            p = nsmap.get(uri)
            if p is None:
                p = "ns%d" % len(nsmap)
                nsmap[uri] = p
            return local if p == "" else f"{p}:{local}"
        return name

    def conv(el):
        if el.tag is ET.Comment:
            return Node("", text=el.text or "", kind="comment")
        if el.tag is ET.ProcessingInstruction:
            t = (el.text or "").split(" ", 1)
            return Node(t[0], text=t[1] if len(t) > 1 else "", kind="pi")
        n = Node(q(el.tag), {q(k): v for k, v in el.attrib.items()}, [], el.text if (el.text or "").strip() else None)
        for c in el:
            n.children.append(conv(c))
        return n

    r = conv(root)
    attrs = {"xmlns": SVGNS}
    for uri, p in nsmap.items():
        if p:
            attrs["xmlns:" + p] = uri
    r.attrs = {**attrs, **r.attrs}
    return r
