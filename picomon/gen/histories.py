"""Operation histories over the public SVG API (C15)."""
import itertools
import random

# name -> (callable(svg, inplace) , kind)   kind: "op" has in-place/copy modes, "query" has none
def _ops():
    from lxml import etree

    def mk(name, *a, **kw):
        return lambda s, ip: getattr(s, name)(*a, inplace=ip, **kw)

    ops = {
        "absolute": mk("absolute"),
        "shapes_to_paths": mk("shapes_to_paths"),
        "expand_shorthand": mk("expand_shorthand"),
        "apply_style_attributes": mk("apply_style_attributes"),
        "resolve_use": mk("resolve_use"),
        "resolve_nested_svgs": mk("resolve_nested_svgs"),
        "simplify": mk("simplify"),
        "clip_to_viewbox": mk("clip_to_viewbox"),
        "evenodd_to_nonzero_winding": mk("evenodd_to_nonzero_winding"),
        "round_floats": lambda s, ip: s.round_floats(1, inplace=ip),
        "remove_empty_subpaths": mk("remove_empty_subpaths"),
        "remove_unpainted_shapes": mk("remove_unpainted_shapes"),
        "remove_nonsvg_content": mk("remove_nonsvg_content"),
        "remove_processing_instructions": mk("remove_processing_instructions"),
        "remove_anonymous_symbols": mk("remove_anonymous_symbols"),
        "remove_title_meta_desc": mk("remove_title_meta_desc"),
        "set_attributes_root": lambda s, ip: s.set_attributes((("fill", "lime"), ("data-x", "1")), inplace=ip),
        "set_attributes_g": lambda s, ip: s.set_attributes((("fill", "teal"),), xpath="//svg:g", inplace=ip),
        "remove_attributes": lambda s, ip: s.remove_attributes(("width", "height"), inplace=ip),
        "normalize_opacity": mk("normalize_opacity"),
        "topicosvg": lambda s, ip: s.topicosvg(inplace=ip),
    }
    queries = {
        "shapes": lambda s: s.shapes(),
        "bounding_box": lambda s: s.bounding_box(),
        "view_box": lambda s: s.view_box(),
        "tolerance": lambda s: s.tolerance,
        "checkpicosvg": lambda s: s.checkpicosvg(),
        "tostring": lambda s: s.tostring(),
        "toetree": lambda s: s.toetree(),
        "xpath": lambda s: s.xpath("//svg:path"),
        "append_to": lambda s: s.append_to("/svg:svg", etree.Element("{http://www.w3.org/2000/svg}path", {"d": "M1,1 L2,2 L3,1 Z"})),
    }
    return ops, queries


def alphabet():
    ops, queries = _ops()
    steps = []
    for name in ops:
        steps.append((name, "inplace"))
        steps.append((name, "copy"))
    for name in queries:
        steps.append((name, "query"))
    return steps


CACHE_POPULATING = {"absolute", "shapes_to_paths", "expand_shorthand", "round_floats", "normalize_opacity", "evenodd_to_nonzero_winding",
                    "remove_empty_subpaths", "shapes", "bounding_box"}

DOCS = [
    # relative paths + basic shapes + styles + evenodd + noise
    '<svg xmlns="http://www.w3.org/2000/svg" xmlns:xlink="http://www.w3.org/1999/xlink" viewBox="0 0 100 100" width="100" height="100">'
    '<?pi x?><title>t</title><g style="fill:green" opacity="0.5"><rect x="5.55" y="5.55" width="30.44" height="30" rx="3"/>'
    '<path d="m10.123,10 l20,0 l0,20 z m5,5 h5 v5 z M50,50 Q60,40 70,50 T90,50" fill-rule="evenodd" fill-opacity="0.5"/></g>'
    '<circle cx="150" cy="50" r="20" fill="red"/><rect x="40" y="60" width="40" height="20" ry="16" fill="navy"/><symbol><rect width="1" height="1"/></symbol></svg>',
    # use + nested svg + stroke + clip
    '<svg xmlns="http://www.w3.org/2000/svg" xmlns:xlink="http://www.w3.org/1999/xlink" viewBox="0 0 100 100">'
    '<defs><clipPath id="c"><circle cx="30" cy="30" r="25"/></clipPath><rect id="r" x="1.26" y="2" width="20" height="20" fill="blue"/></defs>'
    '<use xlink:href="#r" x="10" y="10"/><g clip-path="url(#c)"><use xlink:href="#r" x="30.5" y="25" transform="rotate(10)"/></g>'
    '<svg x="50" y="50" width="40" height="40" viewBox="0 0 10 10"><path d="M1,1 h5 v5 z" stroke="black" stroke-width="0.5" fill="none"/></svg>'
    '<path d="M80,10 L95,10 L95,25 Z M5,5" style="opacity:0.5;fill:orange"/></svg>',
    # gradients + transform + invisible shapes + foreign namespace
    '<svg xmlns="http://www.w3.org/2000/svg" xmlns:xlink="http://www.w3.org/1999/xlink" xmlns:ink="urn:ink" viewBox="0 0 100 100" fill="purple">'
    '<defs><linearGradient id="lg" x1="0" x2="1"><stop offset="0" stop-color="red"/><stop offset="1" stop-color="blue"/></linearGradient></defs>'
    '<ink:x/><g transform="translate(5.25 5)" ink:label="l"><rect width="40" height="30" fill="url(#lg)"/><rect x="50" width="20" height="20" opacity="0"/>'
    '<ellipse cx="30.333" cy="60" rx="20" ry="10" style="fill:none"/></g><polygon points="60,60 90,60 75,90.55" style="fill-opacity:0.25"/></svg>',
    # arcs, shorthand, translucent nested groups
    '<svg xmlns="http://www.w3.org/2000/svg" viewBox="0 0 100 100"><g opacity="0.5" fill="navy"><g opacity="0.5"><path d="M10,10 A20 10 30 1 0 50,40 S70,60 80,30 z"/>'
    '<rect x="20.05" y="20.15" width="30" height="30" fill="navy"/><rect x="60" y="70" width="30" height="12" rx="999"/></g><line x1="0" y1="0" x2="50" y2="50" stroke="red" stroke-width="2.5"/></g>'
    '<polyline points="5,95 25,75 45,95" style="stroke:green;fill:none;stroke-width:3"/></svg>',
    # evenodd star, partly outside the viewBox, desc/metadata
    '<svg xmlns="http://www.w3.org/2000/svg" viewBox="10 10 60 60"><desc>d</desc><metadata>m</metadata>'
    '<path d="M40,5 L55,75 L5,30 L75,30 L25,75 Z" fill-rule="evenodd" fill="teal"/><rect x="60.5" y="60.5" width="40" height="40" style="fill:gold"/>'
    '<g><rect x="-20" y="-20" width="10" height="10"/></g></svg>',
    # minimal
    '<svg xmlns="http://www.w3.org/2000/svg" viewBox="0 0 10 10"><rect x="1.11" y="1" width="5" height="5" style="fill:red;opacity:0.5"/></svg>',
]


def exhaustive(length):
    return itertools.product(alphabet(), repeat=length)


def random_history(rng, lo=4, hi=8):
    a = alphabet()
    return tuple(rng.choice(a) for _ in range(rng.randint(lo, hi)))
