"""Seeded generators of fill-rule-sensitive outlines (absolute M/L/Q/C/Z command lists)."""
import math
import random


def _poly(pts, close=True):
    c = [("M", (float(pts[0][0]), float(pts[0][1])))] + [("L", (float(x), float(y))) for x, y in pts[1:]]
    if close:
        c.append(("Z", ()))
    return c


def star(cx, cy, r, n=5, step=2, rot=0.0):
    """{n/step} star polygon: self-intersecting, centre has winding `step`."""
    pts = []
    for i in range(n):
        a = rot + 2 * math.pi * ((i * step) % n) / n
        pts.append((cx + r * math.cos(a), cy + r * math.sin(a)))
    return _poly(pts)


def rect(x, y, w, h, ccw=False):
    pts = [(x, y), (x + w, y), (x + w, y + h), (x, y + h)]
    if ccw:
        pts = [pts[0]] + pts[:0:-1]
    return _poly(pts)


def nested(cx, cy, r_out, r_in, same_direction=True):
    """Two nested squares in one path; same direction: hole under evenodd only."""
    a = rect(cx - r_out, cy - r_out, 2 * r_out, 2 * r_out)
    b = rect(cx - r_in, cy - r_in, 2 * r_in, 2 * r_in, ccw=not same_direction)
    return a + b


def figure8(cx, cy, w, h):
    return _poly([(cx - w, cy - h), (cx + w, cy + h), (cx + w, cy - h), (cx - w, cy + h)])


def blob(rng, cx, cy, r, n=None):
    """Closed curved outline made of cubic and quadratic segments."""
    n = n or rng.randint(3, 6)
    pts = []
    for i in range(n):
        a = 2 * math.pi * i / n + rng.uniform(-0.2, 0.2)
        rr = r * rng.uniform(0.6, 1.2)
        pts.append((cx + rr * math.cos(a), cy + rr * math.sin(a)))
    c = [("M", pts[0])]
    for i in range(n):
        p0 = pts[i]
        p1 = pts[(i + 1) % n]
        mx, my = (p0[0] + p1[0]) / 2, (p0[1] + p1[1]) / 2
        ox, oy = (mx - cx) * rng.uniform(0.1, 0.8), (my - cy) * rng.uniform(0.1, 0.8)
        if rng.random() < 0.5:
            c.append(("Q", (mx + ox, my + oy, p1[0], p1[1])))
        else:
            c.append(("C", (p0[0] + ox, p0[1] + oy, p1[0] + ox, p1[1] + oy, p1[0], p1[1])))
    c.append(("Z", ()))
    return c


def random_polygon(rng, lo, hi, n=None, lattice=False):
    n = n or rng.randint(3, 8)
    if lattice:
        pts = [(float(rng.randint(int(lo), int(hi))), float(rng.randint(int(lo), int(hi)))) for _ in range(n)]
    else:
        pts = [(round(rng.uniform(lo, hi), 2), round(rng.uniform(lo, hi), 2)) for _ in range(n)]
    return _poly(pts, close=rng.random() < 0.85)


def rule_sensitive(rng, lo=10.0, hi=90.0):
    """An outline on which nonzero and evenodd differ somewhere."""
    cx, cy = rng.uniform(lo + 20, hi - 20), rng.uniform(lo + 20, hi - 20)
    k = rng.random()
    if k < 0.35:
        n, step = rng.choice(((5, 2), (7, 2), (7, 3), (8, 3), (9, 4)))
        return star(cx, cy, rng.uniform(15, 35), n, step, rng.uniform(0, 6.28))
    if k < 0.7:
        ro = rng.uniform(15, 30)
        return nested(cx, cy, ro, ro * rng.uniform(0.3, 0.7), same_direction=True)
    # overlapping same-direction rectangles in one path
    a = rect(cx - 20, cy - 20, 30, 30)
    b = rect(cx - 5, cy - 5, 30, 30)
    return a + b


def any_outline(rng, lo=5.0, hi=95.0):
    k = rng.random()
    cx, cy = rng.uniform(lo + 15, hi - 15), rng.uniform(lo + 15, hi - 15)
    if k < 0.3:
        return rule_sensitive(rng, lo, hi)
    if k < 0.4:
        ro = rng.uniform(12, 30)
        return nested(cx, cy, ro, ro * rng.uniform(0.3, 0.7), same_direction=False)
    if k < 0.5:
        return figure8(cx, cy, rng.uniform(8, 25), rng.uniform(8, 25))
    if k < 0.7:
        return blob(rng, cx, cy, rng.uniform(10, 30))
    if k < 0.8:
        return blob(rng, cx, cy, rng.uniform(10, 25)) + blob(rng, cx + rng.uniform(-10, 10), cy + rng.uniform(-10, 10), rng.uniform(5, 20))
    if k < 0.9:
        return random_polygon(rng, lo, hi, lattice=rng.random() < 0.5)
    w, h = rng.uniform(10, 40), rng.uniform(10, 40)
    return rect(cx - w / 2, cy - h / 2, w, h, ccw=rng.random() < 0.5)
