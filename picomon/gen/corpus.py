"""The SVG files under <repo>/tests (inputs and goldens) as realistic seeds."""
import glob
import os

from picomon import bootstrap


def files():
    return sorted(glob.glob(os.path.join(bootstrap.repo_root(), "tests", "*.svg")))
