"""Reference colour of a linear / radial gradient at a point (pservers.html), with href
template resolution, percentages, both gradientUnits, gradientTransform, spread methods
and stop interpolation.  Independent of picosvg."""
import math
import re

from picomon.ref import affine as RA, cascade as CS

SVGNS = "{http://www.w3.org/2000/svg}"
XLINK = "{http://www.w3.org/1999/xlink}href"
LIN_ATTRS = ("x1", "y1", "x2", "y2")
RAD_ATTRS = ("cx", "cy", "r", "fx", "fy", "fr")
COMMON = ("gradientUnits", "gradientTransform", "spreadMethod")


class GradError(Exception):
    pass


def local(tag):
    return tag.split("}", 1)[1] if tag.startswith("{") else tag


def resolve(scene, gid, depth=0):
    """-> dict(kind, attrs{...}, stops[(offset, (r,g,b), opacity)])"""
    if depth > 8:
        raise GradError("gradient href cycle")
    el = scene.ids.get(gid)
    if el is None:
        raise GradError(f"no gradient {gid!r}")
    kind = local(el.tag)
    if kind not in ("linearGradient", "radialGradient"):
        raise GradError(f"{gid!r} is not a gradient")
    attrs = {k: el.get(k) for k in LIN_ATTRS + RAD_ATTRS + COMMON if el.get(k) is not None}
    stops = [c for c in el if isinstance(c.tag, str) and local(c.tag) == "stop"]
    href = el.get(XLINK) or el.get("href")
    if href:
        if not href.startswith("#"):
            raise GradError("external href")
        t = resolve(scene, href[1:].strip(), depth + 1)
        own = LIN_ATTRS if kind == "linearGradient" else RAD_ATTRS
        for k, v in t["attrs"].items():
            if k not in attrs and (k in COMMON or (k in own and t["kind"] == kind)):
                attrs[k] = v
        if not stops:
            stops = t["stop_els"]
    return dict(kind=kind, attrs=attrs, stop_els=stops)


def _stops(stop_els):
    out = []
    last = 0.0
    for s in stop_els:
        props = {}
        for k in ("stop-color", "stop-opacity", "offset"):
            if s.get(k) is not None:
                props[k] = s.get(k)
        st = s.get("style")
        if st:
            for d in st.split(";"):
                if ":" in d:
                    k, v = d.split(":", 1)
                    if k.strip() in ("stop-color", "stop-opacity"):
                        props[k.strip()] = v.strip()
        off = props.get("offset", "0").strip()
        o = float(off[:-1]) / 100.0 if off.endswith("%") else float(off)
        o = max(last, max(0.0, min(1.0, o)))
        last = o
        c = CS.rgb(props.get("stop-color", "black"))
        if c is None:
            raise GradError(f"stop colour {props.get('stop-color')!r}")
        out.append((o, c, CS.clamp01(float(props.get("stop-opacity", "1")))))
    return out


def _len(v, default, scale, bbox_units):
    if v is None:
        v = default
    v = v.strip()
    if v.endswith("%"):
        return float(v[:-1]) / 100.0 * (1.0 if bbox_units else scale)
    return float(v)


def color_at(scene, leaf, p):
    m = re.match(r"^url\(#([^)]+)\)$", leaf.paint.strip())
    if not m:
        raise GradError(f"paint {leaf.paint!r}")
    g = resolve(scene, m.group(1))
    t = param_at(scene, leaf, p, g)
    if t is None:
        return None
    stops = _stops(g["stop_els"])
    if not stops:
        return (0.0, 0.0, 0.0, 0.0)
    return stop_color(stops, t)


def stop_color(stops, t):
    if t <= stops[0][0]:
        o, c, a = stops[0]
        return (c[0], c[1], c[2], a)
    for i in range(1, len(stops)):
        o0, c0, a0 = stops[i - 1]
        o1, c1, a1 = stops[i]
        if t <= o1:
            if o1 == o0:
                return (c1[0], c1[1], c1[2], a1)
            u = (t - o0) / (o1 - o0)
            return tuple(c0[k] + u * (c1[k] - c0[k]) for k in range(3)) + (a0 + u * (a1 - a0),)
    o, c, a = stops[-1]
    return (c[0], c[1], c[2], a)


def raw_param(scene, leaf, p, g):
    """Gradient parameter before the spread method (may be outside 0..1); None if undefined."""
    a = g["attrs"]
    bbox_units = a.get("gradientUnits", "objectBoundingBox") == "objectBoundingBox"
    # point in the user space of the referencing element
    inv = RA.inverse_exact(leaf.ctm)
    if inv is None:
        return None
    inv = tuple(float(v) for v in inv)
    x, y = RA.apply(inv, p)
    gm = RA.parse_float_transform(a.get("gradientTransform"))
    if bbox_units:
        bb = leaf.bbox
        if bb is None or bb[2] - bb[0] <= 0 or bb[3] - bb[1] <= 0:
            raise GradError("degenerate bounding box")
        gm = RA.mul((bb[2] - bb[0], 0, 0, bb[3] - bb[1], bb[0], bb[1]), gm)
    ginv = RA.inverse_exact(gm)
    if ginv is None:
        return None
    gx, gy = RA.apply(tuple(float(v) for v in ginv), (x, y))
    vb = scene.viewbox
    W, H = vb[2], vb[3]
    diag = math.hypot(W, H) / math.sqrt(2)
    if g["kind"] == "linearGradient":
        x1 = _len(a.get("x1"), "0%", W, bbox_units)
        y1 = _len(a.get("y1"), "0%", H, bbox_units)
        x2 = _len(a.get("x2"), "100%", W, bbox_units)
        y2 = _len(a.get("y2"), "0%", H, bbox_units)
        dx, dy = x2 - x1, y2 - y1
        L2 = dx * dx + dy * dy
        if L2 == 0:
            return 1.0  # zero-length vector: last stop colour
        return ((gx - x1) * dx + (gy - y1) * dy) / L2
    cx = _len(a.get("cx"), "50%", W, bbox_units)
    cy = _len(a.get("cy"), "50%", H, bbox_units)
    r = _len(a.get("r"), "50%", diag, bbox_units)
    fx = _len(a.get("fx"), None, W, bbox_units) if a.get("fx") is not None else cx
    fy = _len(a.get("fy"), None, H, bbox_units) if a.get("fy") is not None else cy
    fr = _len(a.get("fr"), "0%", diag, bbox_units)
    if r <= 0:
        return 1.0
    # two-circle gradient: largest t with |P - (F + t (C - F))| = fr + t (r - fr)
    cdx, cdy = cx - fx, cy - fy
    pdx, pdy = gx - fx, gy - fy
    dr = r - fr
    A = cdx * cdx + cdy * cdy - dr * dr
    B = pdx * cdx + pdy * cdy + fr * dr
    C = pdx * pdx + pdy * pdy - fr * fr
    if abs(A) < 1e-14:
        if B == 0:
            return None
        t = C / (2 * B)
    else:
        disc = B * B - A * C
        if disc < 0:
            return None
        sq = math.sqrt(disc)
        t1, t2 = (B + sq) / A, (B - sq) / A
        t = max(t1, t2)
        if fr + t * dr < 0:
            t = min(t1, t2)
            if fr + t * dr < 0:
                return None
    return t


def param_at(scene, leaf, p, g):
    t = raw_param(scene, leaf, p, g)
    if t is None:
        return None
    sm = g["attrs"].get("spreadMethod", "pad")
    if sm == "pad":
        return max(0.0, min(1.0, t))
    if sm == "repeat":
        return t - math.floor(t)
    if sm == "reflect":
        u = t % 2.0
        return u if u <= 1 else 2 - u
    raise GradError(f"spreadMethod {sm!r}")
