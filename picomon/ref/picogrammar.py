"""Validator for the README 'picosvg' grammar as stated in property C01.  Works on a tree
parsed by the standard library's xml.etree with comments and processing instructions
retained (independent of lxml and of picosvg's own checkpicosvg)."""
import math
import re
import xml.etree.ElementTree as ET

from picomon.ref import pathgrammar as G

SVG = "http://www.w3.org/2000/svg"
XLINK = "http://www.w3.org/1999/xlink"
BASIC = {"rect", "circle", "ellipse", "line", "polyline", "polygon"}
ROOT_FORBIDDEN = {"fill", "fill-rule", "fill-opacity", "stroke", "stroke-width", "stroke-linecap", "stroke-linejoin", "stroke-miterlimit",
                  "stroke-dasharray", "stroke-dashoffset", "stroke-opacity", "clip-rule", "color", "style", "display", "opacity", "clip-path", "transform"}
GRAD_COORDS = {"linearGradient": ("x1", "y1", "x2", "y2"), "radialGradient": ("cx", "cy", "r", "fx", "fy", "fr")}
TEXT = {"text", "tspan", "textPath"}
_NUM = re.compile(r"^[-+]?(?:\d+\.?\d*|\.\d+)(?:[eE][-+]?\d+)?$")


def split(tag):
    if isinstance(tag, str) and tag.startswith("{"):
        ns, name = tag[1:].split("}", 1)
        return ns, name
    return None, tag


def parse(text):
    parser = ET.XMLParser(target=ET.TreeBuilder(insert_comments=True, insert_pis=True))
    return ET.fromstring(text, parser=parser)


def validate(text, ndigits=3, allow_text=False):
    """-> list of (rule, message); empty means the document conforms."""
    errs = []
    try:
        root = parse(text)
    except ET.ParseError as e:
        return [("well_formed", f"output is not well-formed XML: {e}")]
    if split(root.tag) != (SVG, "svg"):
        return [("root", f"root element is {root.tag}")]
    for a in root.attrib:
        ns, name = split(a)
        if ns is None and name in ROOT_FORBIDDEN:
            errs.append(("root_presentation_attribute", f"root carries {name}={root.get(a)!r}"))
    kids = [c for c in root if isinstance(c.tag, str)]
    if not kids or split(kids[0].tag) != (SVG, "defs"):
        errs.append(("defs_first", "first element child of the root is not <defs>"))
    ndefs = 0

    def walk(el, parent, in_defs, in_text, depth):
        nonlocal ndefs
        if not isinstance(el.tag, str):
            kind = "comment" if el.tag is ET.Comment else "processing instruction"
            errs.append(("comment_or_pi", f"{kind} survives: {str(el.text)[:40]!r}"))
            return
        ns, name = split(el.tag)
        if ns != SVG:
            errs.append(("foreign_element", f"element {el.tag} in a foreign namespace"))
            return
        for a in el.attrib:
            ans, an = split(a)
            if ans is not None:
                errs.append(("foreign_attribute" if ans != XLINK else "xlink_attribute", f"<{name}> carries attribute {a}"))
        if el is root:
            pass
        elif name == "defs":
            ndefs += 1
            if parent is not root or ndefs > 1:
                errs.append(("single_defs", "more than one <defs> or <defs> not under the root"))
            for c in el:
                if not isinstance(c.tag, str):
                    walk(c, el, True, False, depth + 1)
                    continue
                cns, cn = split(c.tag)
                if cns != SVG or cn not in GRAD_COORDS:
                    errs.append(("defs_content", f"<defs> contains <{cn}>"))
                    continue
                if not c.get("id"):
                    errs.append(("gradient_id", f"<{cn}> without id"))
                if c.get("href") is not None or c.get("{%s}href" % XLINK) is not None:
                    errs.append(("gradient_href", f"gradient {c.get('id')} still has href"))
                for k in GRAD_COORDS[cn]:
                    v = c.get(k)
                    if v is not None and not _NUM.match(v.strip()):
                        errs.append(("gradient_coordinate", f"gradient {c.get('id')} {k}={v!r} is not a plain number"))
                for s in c:
                    if not isinstance(s.tag, str):
                        walk(s, c, True, False, depth + 2)
                    elif split(s.tag) != (SVG, "stop"):
                        errs.append(("gradient_children", f"gradient {c.get('id')} contains <{split(s.tag)[1]}>"))
                for a in c.attrib:
                    if split(a)[0] is not None:
                        errs.append(("xlink_attribute" if split(a)[0] == XLINK else "foreign_attribute", f"gradient carries {a}"))
            return
        elif in_text:
            if name not in TEXT:
                errs.append(("bad_element", f"<{name}> inside text content"))
        elif name == "g":
            ekids = [c for c in el if isinstance(c.tag, str)]
            if len(ekids) < 2:
                errs.append(("group_children", f"<g> with {len(ekids)} element child(ren) survives"))
            if set(el.attrib) != {"opacity"}:
                errs.append(("group_attributes", f"<g> carries attributes {sorted(el.attrib)} (only opacity allowed)"))
            else:
                try:
                    o = float(el.get("opacity"))
                    if not (0 < o < 1):
                        errs.append(("group_opacity", f"<g opacity={el.get('opacity')!r}> not strictly between 0 and 1"))
                except ValueError:
                    errs.append(("group_opacity", f"<g opacity={el.get('opacity')!r}>"))
        elif name == "path":
            for a in el.attrib:
                if a.startswith("stroke") or a in ("transform", "clip-path"):
                    errs.append(("path_attribute", f"<path> carries {a}={el.get(a)!r}"))
            if el.get("fill-rule") == "evenodd":
                errs.append(("path_evenodd", "<path fill-rule=evenodd> survives"))
            if len([c for c in el if isinstance(c.tag, str)]):
                errs.append(("path_children", "<path> has element children"))
            d = el.get("d", "")
            cmds, pos, tokens, _ = G.parse_ex(d)
            if cmds is None:
                errs.append(("path_data_grammar", f"path data not in the SVG grammar at {pos}: {d[:80]!r}"))
            else:
                bad = sorted({c for c, _ in cmds if c not in "MLCQAZ"})
                if bad:
                    errs.append(("path_commands", f"path data uses {bad}: {d[:80]!r}"))
                for t in tokens:
                    try:
                        v = float(t)
                    except ValueError:
                        continue
                    if not math.isfinite(v) or round(v, ndigits) != v:
                        errs.append(("path_rounding", f"number {t} is not rounded to {ndigits} digits in {d[:60]!r}"))
                        break
                    if "e" not in t.lower() and "." in t and len(t.split(".")[1]) > ndigits:
                        errs.append(("path_rounding", f"number {t} shows more than {ndigits} decimals"))
                        break
        elif allow_text and name in ("text", "textPath"):
            for c in el:
                walk(c, el, False, True, depth + 1)
            return
        elif name in ("use", "clipPath", "svg") or name in BASIC:
            errs.append(("forbidden_element", f"<{name}> survives"))
            return
        else:
            errs.append(("bad_element", f"<{name}> survives"))
            return
        if name == "path":
            return
        for c in el:
            walk(c, el, in_defs, in_text, depth + 1)

    walk(root, None, False, False, 0)
    # de-duplicate, keep order
    seen = set()
    out = []
    for e in errs:
        if e not in seen:
            seen.add(e)
            out.append(e)
    return out
