"""Outlines of the SVG basic shapes as path commands, from the SVG 1.1 shapes chapter.
Input: tag and a mapping of attribute strings (absent = not specified)."""
import re

_NUM = re.compile(r"[-+]?(?:\d+\.?\d*|\.\d+)(?:[eE][-+]?\d+)?")


def _f(attrs, k, d=0.0):
    v = attrs.get(k)
    if v is None or str(v).strip() == "":
        return d
    return float(v)


def points(s):
    return [float(x) for x in _NUM.findall(s or "")]


def outline(tag, attrs):
    """-> exploded absolute command list (may be empty)."""
    if tag == "rect":
        x, y, w, h = _f(attrs, "x"), _f(attrs, "y"), _f(attrs, "width"), _f(attrs, "height")
        rx = attrs.get("rx")
        ry = attrs.get("ry")
        rx = float(rx) if rx not in (None, "") else None
        ry = float(ry) if ry not in (None, "") else None
        if rx is None and ry is None:
            rx = ry = 0.0
        elif rx is None:
            rx = ry
        elif ry is None:
            ry = rx
        rx = min(rx, w / 2.0)
        ry = min(ry, h / 2.0)
        if rx <= 0 or ry <= 0:
            return [("M", (x, y)), ("L", (x + w, y)), ("L", (x + w, y + h)), ("L", (x, y + h)), ("Z", ())]
        return [
            ("M", (x + rx, y)),
            ("L", (x + w - rx, y)),
            ("A", (rx, ry, 0.0, 0, 1, x + w, y + ry)),
            ("L", (x + w, y + h - ry)),
            ("A", (rx, ry, 0.0, 0, 1, x + w - rx, y + h)),
            ("L", (x + rx, y + h)),
            ("A", (rx, ry, 0.0, 0, 1, x, y + h - ry)),
            ("L", (x, y + ry)),
            ("A", (rx, ry, 0.0, 0, 1, x + rx, y)),
            ("Z", ()),
        ]
    if tag in ("circle", "ellipse"):
        cx, cy = _f(attrs, "cx"), _f(attrs, "cy")
        if tag == "circle":
            rx = ry = _f(attrs, "r")
        else:
            rx, ry = _f(attrs, "rx"), _f(attrs, "ry")
        return [
            ("M", (cx + rx, cy)),
            ("A", (rx, ry, 0.0, 1, 1, cx - rx, cy)),
            ("A", (rx, ry, 0.0, 1, 1, cx + rx, cy)),
            ("Z", ()),
        ]
    if tag == "line":
        return [("M", (_f(attrs, "x1"), _f(attrs, "y1"))), ("L", (_f(attrs, "x2"), _f(attrs, "y2")))]
    if tag in ("polyline", "polygon"):
        v = points(attrs.get("points", ""))
        if len(v) < 2:
            return []
        c = [("M", (v[0], v[1]))] + [("L", (v[i], v[i + 1])) for i in range(2, len(v) - 1, 2)]
        if tag == "polygon":
            c.append(("Z", ()))
        return c
    raise ValueError(tag)


BASIC = ("rect", "circle", "ellipse", "line", "polyline", "polygon")
