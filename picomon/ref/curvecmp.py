"""Reference comparison of two path descriptions: do they describe the same curve?

same_curve(before_cmds, after_cmds, tol, ...) -> (ok, reason)
Both inputs are exploded command lists; interpretation is done by ref.pathgeom only.
"""
import math

from picomon.ref import pathgeom as PG


def coord_scale(cmds):
    m = 0.0
    for _, a in cmds:
        for v in a:
            av = abs(v)
            if av > m and av != float("inf"):
                m = av
    return m


def _nonzero(subs, eps=0.0):
    return [s for s in subs if not s.zero_extent(eps)]


def _pt_close(p, q, tol):
    return abs(p[0] - q[0]) <= tol and abs(p[1] - q[1]) <= tol


def _seg_close(a, b, tol):
    if a[0] != b[0]:
        return False
    if a[0] == "A":
        return (
            _pt_close(a[1], b[1], tol)
            and _pt_close(a[7], b[7], tol)
            and abs(abs(a[2]) - abs(b[2])) <= tol
            and abs(abs(a[3]) - abs(b[3])) <= tol
            and abs(a[4] - b[4]) <= 1e-9 * (1 + abs(a[4]))
            and a[5] == b[5]
            and a[6] == b[6]
        )
    return all(_pt_close(p, q, tol) for p, q in zip(a[1:], b[1:]))


def same_subpath(sa, sb, tol, curve_tol, flat_tol):
    """-> (ok, reason, used_fallback)"""
    if not _pt_close(sa.start, sb.start, max(tol, curve_tol)):
        return False, f"start {sa.start} vs {sb.start}", False
    if not _pt_close(sa.end, sb.end, max(tol, curve_tol)):
        return False, f"end {sa.end} vs {sb.end}", False
    if sa.closed != sb.closed:
        return False, f"closed {sa.closed} vs {sb.closed}", False
    if len(sa.segs) == len(sb.segs) and all(_seg_close(x, y, tol) for x, y in zip(sa.segs, sb.segs)):
        return True, "", False
    if curve_tol > 0:
        r = _aligned_arc_compare(sa, sb, tol, curve_tol)
        if r is not None:
            return r[0], r[1], False
    pa = PG.flatten_sub(sa, flat_tol)
    pb = PG.flatten_sub(sb, flat_tol)
    lim = max(tol, curve_tol) + 2 * flat_tol
    within, wit = PG.hausdorff_within(pa, pb, lim)
    if within:
        # same point set; also require the same orientation/sweep (signed area of the
        # fill-closed outline), which a Hausdorff distance cannot see
        aa, ab = PG.polygon_area(pa), PG.polygon_area(pb)
        per = sum(math.hypot(pa[i][0] - pa[i - 1][0], pa[i][1] - pa[i - 1][1]) for i in range(1, len(pa)))
        if abs(aa - ab) > 2 * (per + 1) * lim + 1e-9 * (abs(aa) + abs(ab)):
            return False, f"signed area {aa:.6g} vs {ab:.6g} (direction / sweep differs)", True
        return True, "", True
    return False, f"curves differ: point {wit} is farther than {lim:.3g} from the other curve", True


def _unit_frame(pr, p):
    c, s = math.cos(pr["phi"]), math.sin(pr["phi"])
    dx, dy = p[0] - pr["cx"], p[1] - pr["cy"]
    return ((c * dx + s * dy) / pr["rx"], (-s * dx + c * dy) / pr["ry"])


def cubics_follow_arc(arc, pieces, rel_tol=3e-4, nsamp=8):
    """arc: ("A", p0, rx, ry, phi, fa, fs, p1); pieces: C/L segments replacing it.
    -> (ok, reason).  Checks: continuity, radial deviation <= rel_tol in the unit-circle
    frame, angle monotone in the sweep direction, total swept angle == dtheta."""
    pr = PG.arc_center(*arc[1:])
    if pr is None:
        return (len(pieces) == 0, "zero-length arc must give no segment")
    if pr == ("line",):
        ok = len(pieces) == 1 and pieces[0][0] == "L" and pieces[0][2] == arc[7]
        return (ok, "zero radius must give one straight segment to the end point")
    if not pieces:
        return False, "arc replaced by nothing"
    scale = max(abs(pr["cx"]), abs(pr["cy"]), pr["rx"], pr["ry"], 1e-300)
    slack = rel_tol + 64 * 2.2e-16 * scale / min(pr["rx"], pr["ry"])
    cur = arc[1]
    prev_ang = None
    total = 0.0
    sign = 1.0 if pr["dth"] > 0 else -1.0
    for sg in pieces:
        if sg[0] != "C":
            return False, f"arc piece of kind {sg[0]}"
        p0, c1, c2, p1 = sg[1:]
        if abs(p0[0] - cur[0]) > 1e-9 * (1 + scale) or abs(p0[1] - cur[1]) > 1e-9 * (1 + scale):
            return False, "pieces do not join"
        for i in range(nsamp + 1):
            t = i / nsamp
            u = 1 - t
            a, b, c, d = u * u * u, 3 * u * u * t, 3 * u * t * t, t * t * t
            p = (a * p0[0] + b * c1[0] + c * c2[0] + d * p1[0], a * p0[1] + b * c1[1] + c * c2[1] + d * p1[1])
            q = _unit_frame(pr, p)
            rad = math.hypot(q[0], q[1])
            if abs(rad - 1.0) > slack:
                return False, f"point {p} is {abs(rad - 1.0):.3g} (relative) off the ellipse"
            ang = math.atan2(q[1], q[0])
            if prev_ang is not None:
                d_ang = ang - prev_ang
                while d_ang > math.pi:
                    d_ang -= 2 * math.pi
                while d_ang < -math.pi:
                    d_ang += 2 * math.pi
                if d_ang * sign < -1e-7:
                    return False, "angle not monotone in the sweep direction"
                total += d_ang
            prev_ang = ang
        cur = p1
    if abs(total - pr["dth"]) > 1e-6 + 4 * slack:
        return False, f"swept angle {total:.6g} vs {pr['dth']:.6g}"
    return True, ""


def _aligned_arc_compare(sa, sb, tol, curve_tol):
    """Structural comparison when arcs of `sa` were replaced by cubic pieces in `sb`.
    Returns (ok, reason) or None when the segment lists cannot be aligned."""
    j = 0
    B = sb.segs
    for s in sa.segs:
        if s[0] != "A":
            if j < len(B) and _seg_close(s, B[j], tol):
                j += 1
                continue
            return None
        if j < len(B) and B[j][0] == "A":
            if _seg_close(s, B[j], tol):
                j += 1
                continue
            return None
        pr = PG.arc_center(*s[1:])
        end = s[7]
        pieces = []
        if pr is None:
            pass
        else:
            while j < len(B):
                pieces.append(B[j])
                j += 1
                if _pt_close(pieces[-1][-1], end, tol):
                    break
            else:
                if not pieces:
                    return None
        ok, why = cubics_follow_arc(s, pieces)
        if not ok:
            # let the slow geometric comparison decide borderline cases
            return None
    if j != len(B):
        return None
    return True, ""


def same_curve(before, after, tol=None, curve_tol=0.0, shift=(0.0, 0.0), drop_eps=None):
    """before/after: exploded command lists.  shift: expected translation of `before`.
    -> (ok, reason, info)"""
    sb = PG.interpret(before)
    sa = PG.interpret(after)
    if shift != (0.0, 0.0):
        sb = [_shift(s, shift) for s in sb]
    scale = max(coord_scale(before), coord_scale(after), abs(shift[0]), abs(shift[1]))
    if tol is None:
        tol = 1e-9 * (1.0 + scale)
    if drop_eps is None:
        drop_eps = tol
    nb = _nonzero(sb, drop_eps)
    na = _nonzero(sa, drop_eps)
    info = {"subpaths": len(nb), "fallback": 0}
    if len(nb) != len(na):
        return False, f"subpath count {len(nb)} -> {len(na)}", info
    flat_tol = max(1e-6 * (1.0 + scale), 1e-12) if curve_tol == 0 else min(curve_tol / 10.0, 1e-4 * (1 + scale))
    for i, (x, y) in enumerate(zip(nb, na)):
        ok, why, fb = same_subpath(x, y, tol, curve_tol, flat_tol)
        info["fallback"] += 1 if fb else 0
        if not ok:
            return False, f"subpath {i}: {why}", info
    return True, "", info


def _shift(sp, d):
    dx, dy = d
    n = PG.Subpath((sp.start[0] + dx, sp.start[1] + dy), sp.implicit)
    n.closed = sp.closed
    for s in sp.segs:
        if s[0] == "A":
            n.segs.append(("A", (s[1][0] + dx, s[1][1] + dy), s[2], s[3], s[4], s[5], s[6], (s[7][0] + dx, s[7][1] + dy)))
        else:
            n.segs.append((s[0],) + tuple((p[0] + dx, p[1] + dy) for p in s[1:]))
    return n


def max_arc_radius(cmds):
    """Largest corrected arc radius in the path (0 if no arcs)."""
    r = 0.0
    for sp in PG.interpret(cmds):
        for s in sp.segs:
            if s[0] == "A":
                pr = PG.arc_center(s[1], s[2], s[3], s[4], s[5], s[6], s[7])
                if pr and pr != ("line",):
                    r = max(r, pr["rx"], pr["ry"])
    return r
