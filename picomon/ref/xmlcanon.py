"""Canonical forms of picosvg output for equivalence checks (C14, C15)."""
import re
import xml.etree.ElementTree as ET

SVG = "{http://www.w3.org/2000/svg}"
_NUM = re.compile(r"[-+]?(?:\d+\.?\d*|\.\d+)(?:[eE][-+]?\d+)?")


def canon(el, drop_ws=True):
    """Order-insensitive-in-attributes canonical tuple of an element tree (infoset:
    tags, attributes, text; namespace declarations do not matter)."""
    txt = (el.text or "")
    tail = (el.tail or "")
    if drop_ws:
        txt = txt.strip()
        tail = tail.strip()
    return (el.tag if isinstance(el.tag, str) else str(el.tag), tuple(sorted(el.attrib.items())), txt,
            tuple(canon(c, drop_ws) for c in el), tail)


def canon_text(xml_text):
    parser = ET.XMLParser(target=ET.TreeBuilder(insert_comments=True, insert_pis=True))
    return canon(ET.fromstring(xml_text, parser=parser))


def _grad_sig(g, slack_digits=None):
    """Content signature of a gradient without its id (numbers kept as text)."""
    attrs = tuple(sorted((k, v) for k, v in g.attrib.items() if k != "id"))
    return (g.tag, attrs, tuple(canon(s) for s in g))


def _nums(s):
    return [float(x) for x in _NUM.findall(s)]


def _close(a, b, slack, scale=None):
    """Two attribute strings equal up to `slack` on every embedded number: relative to the
    number itself, or to `scale` (the magnitude of the whole gradient's geometry - rounding of a
    6-digit matrix moves every folded coordinate by about 1e-6 times that magnitude)."""
    if a == b:
        return True
    na, nb = _nums(a), _nums(b)
    if len(na) != len(nb) or _NUM.sub("#", a) != _NUM.sub("#", b):
        return False
    return all(abs(x - y) <= slack * (1 + max(abs(x), scale or 0.0)) for x, y in zip(na, nb))


def equivalent(out_a, out_b, slack=3e-5):
    """Equality of two converted documents up to the numbering of generated gradient ids,
    the order of gradients inside defs and the last rounded digit of gradient parameters.
    Gradient references are compared by the *content* of the gradient they point to.
    -> (bool, reason)"""
    pa = ET.XMLParser(target=ET.TreeBuilder(insert_comments=True, insert_pis=True))
    pb = ET.XMLParser(target=ET.TreeBuilder(insert_comments=True, insert_pis=True))
    a, b = ET.fromstring(out_a, parser=pa), ET.fromstring(out_b, parser=pb)
    da, db = a.find(SVG + "defs"), b.find(SVG + "defs")
    ga = [g for g in (da if da is not None else []) if isinstance(g.tag, str)]
    gb = [g for g in (db if db is not None else []) if isinstance(g.tag, str)]
    if len(ga) != len(gb):
        return False, f"{len(ga)} vs {len(gb)} gradients in defs"
    # content classes (approximate on numbers) over the gradients of both documents
    reps = []

    def klass(g):
        attrs = {k: v for k, v in g.attrib.items() if k != "id"}
        stops = tuple(canon(s) for s in g)
        scale = max([abs(v) for k, x in attrs.items() for v in _nums(x) if k != "gradientTransform"] or [0.0])
        for i, (t, at, st) in enumerate(reps):
            if t == g.tag and st == stops and set(at) == set(attrs) and all(_close(at[k], attrs[k], slack, scale) for k in at):
                return i
        reps.append((g.tag, attrs, stops))
        return len(reps) - 1

    ca = {g.get("id"): klass(g) for g in ga}
    cb = {g.get("id"): klass(g) for g in gb}
    if sorted(ca.values()) != sorted(cb.values()):
        return False, "the gradients in <defs> differ in content"

    def body(root, classes):
        return tuple(_canon_renamed(c, classes) for c in root if c.tag != SVG + "defs")

    if body(a, ca) != body(b, cb):
        return False, "bodies differ"
    ra = tuple(sorted((k, v) for k, v in a.attrib.items()))
    rb = tuple(sorted((k, v) for k, v in b.attrib.items()))
    if ra != rb:
        return False, f"root attributes differ: {ra} vs {rb}"
    return True, ""


def _canon_renamed(el, rename):
    attrs = []
    for k, v in sorted(el.attrib.items()):
        m = re.match(r"^url\(#(.+)\)$", v)
        if m and m.group(1) in rename:
            v = f"url(<gradient class {rename[m.group(1)]}>)"
        attrs.append((k, v))
    return (el.tag if isinstance(el.tag, str) else str(el.tag), tuple(attrs), (el.text or "").strip(),
            tuple(_canon_renamed(c, rename) for c in el), (el.tail or "").strip())


def references(out):
    """-> dict(ids=[...], dup_ids=[...], dangling=[...], orphans=[...]) for a converted document."""
    root = ET.fromstring(out)
    ids = []
    for e in root.iter():
        if e.get("id") is not None:
            ids.append(e.get("id"))
    dup = sorted({i for i in ids if ids.count(i) > 1})
    defs = root.find(SVG + "defs")
    grads = {g.get("id") for g in (defs if defs is not None else []) if g.tag in (SVG + "linearGradient", SVG + "radialGradient")}
    used = set()
    dangling = []
    for e in root.iter():
        for k, v in e.attrib.items():
            for m in re.finditer(r"url\(#([^)]+)\)", v):
                used.add(m.group(1))
                if m.group(1) not in grads:
                    dangling.append((k, m.group(1)))
            if k.endswith("href") and v.startswith("#"):
                used.add(v[1:])
                if v[1:] not in ids:
                    dangling.append((k, v[1:]))
    orphans = sorted(g for g in grads if g not in used)
    return dict(ids=ids, dup_ids=dup, dangling=dangling, orphans=orphans)
