"""Reference path interpreter and geometry, written from the SVG 1.1 paths chapter and
implementation notes (F.6).  Independent of picosvg and of Skia.

interpret(cmds) -> list[Subpath]; a Subpath has .start, .segs (absolute primitives),
.closed, .implicit (started by a drawing command after a closepath, without moveto).
Primitives: ("L", p0, p1) ("Q", p0, c, p1) ("C", p0, c1, c2, p1)
            ("A", p0, rx, ry, phi_deg, fa, fs, p1)
"""
import math

ARITY = dict(m=2, z=0, l=2, h=1, v=1, c=6, s=4, q=4, t=2, a=7)


class Subpath:
    __slots__ = ("start", "segs", "closed", "implicit")

    def __init__(self, start, implicit=False):
        self.start = start
        self.segs = []
        self.closed = False
        self.implicit = implicit

    @property
    def end(self):
        if self.closed:
            return self.start
        return self.segs[-1][-1] if self.segs else self.start

    def zero_extent(self, eps=0.0):
        x0, y0 = self.start
        for s in self.segs:
            for p in seg_points(s):
                if abs(p[0] - x0) > eps or abs(p[1] - y0) > eps:
                    return False
            if s[0] == "A" and s[1] != s[7]:
                return False
        return True


def seg_points(seg):
    k = seg[0]
    if k == "A":
        return (seg[1], seg[7])
    return seg[1:]


def interpret(cmds):
    """cmds: iterable of (letter, args) in exploded form.  Returns list of Subpath."""
    subs = []
    cur = (0.0, 0.0)
    start = (0.0, 0.0)
    sub = None  # currently open subpath
    prev_c = None  # last control point of previous C/S
    prev_q = None  # control point of previous Q/T
    first = True
    for cmd, a in cmds:
        rel = cmd.islower()
        C = cmd.upper()
        if first and cmd == "m":
            rel = False  # leading relative moveto is absolute
        first = False
        ox, oy = cur if rel else (0.0, 0.0)
        if C == "M":
            cur = (a[0] + ox, a[1] + oy)
            start = cur
            sub = Subpath(cur)
            subs.append(sub)
            prev_c = prev_q = None
            continue
        if C == "Z":
            if sub is not None:
                if cur != start:
                    sub.segs.append(("L", cur, start))
                sub.closed = True
            cur = start
            sub = None
            prev_c = prev_q = None
            continue
        if sub is None:
            # drawing command after closepath (or with no moveto at all): new subpath
            sub = Subpath(cur, implicit=True)
            subs.append(sub)
        npc = npq = None
        if C == "L":
            p = (a[0] + ox, a[1] + oy)
            sub.segs.append(("L", cur, p))
        elif C == "H":
            p = (a[0] + ox, cur[1])
            sub.segs.append(("L", cur, p))
        elif C == "V":
            p = (cur[0], a[0] + oy)
            sub.segs.append(("L", cur, p))
        elif C == "C":
            c1 = (a[0] + ox, a[1] + oy)
            c2 = (a[2] + ox, a[3] + oy)
            p = (a[4] + ox, a[5] + oy)
            sub.segs.append(("C", cur, c1, c2, p))
            npc = c2
        elif C == "S":
            c1 = (2 * cur[0] - prev_c[0], 2 * cur[1] - prev_c[1]) if prev_c else cur
            c2 = (a[0] + ox, a[1] + oy)
            p = (a[2] + ox, a[3] + oy)
            sub.segs.append(("C", cur, c1, c2, p))
            npc = c2
        elif C == "Q":
            c = (a[0] + ox, a[1] + oy)
            p = (a[2] + ox, a[3] + oy)
            sub.segs.append(("Q", cur, c, p))
            npq = c
        elif C == "T":
            c = (2 * cur[0] - prev_q[0], 2 * cur[1] - prev_q[1]) if prev_q else cur
            p = (a[0] + ox, a[1] + oy)
            sub.segs.append(("Q", cur, c, p))
            npq = c
        elif C == "A":
            p = (a[5] + ox, a[6] + oy)
            sub.segs.append(("A", cur, a[0], a[1], a[2], int(a[3]), int(a[4]), p))
        else:
            raise ValueError(f"bad command {cmd}")
        cur = p
        prev_c, prev_q = npc, npq
    return subs


# ---------------------------------------------------------------- arcs (F.6)


def arc_center(p0, rx, ry, phi_deg, fa, fs, p1):
    """Endpoint -> centre parametrisation (F.6.5) with out-of-range corrections (F.6.6).
    Returns None for coincident end points, ("line",) for a zero radius, else
    dict(cx, cy, rx, ry, phi, th1, dth, corrected)."""
    if p0[0] == p1[0] and p0[1] == p1[1]:
        return None
    rx, ry = abs(rx), abs(ry)
    if rx == 0 or ry == 0:
        return ("line",)
    phi = math.radians(phi_deg % 360.0)
    c, s = math.cos(phi), math.sin(phi)
    dx, dy = (p0[0] - p1[0]) / 2.0, (p0[1] - p1[1]) / 2.0
    x1 = c * dx + s * dy
    y1 = -s * dx + c * dy
    lam = (x1 * x1) / (rx * rx) + (y1 * y1) / (ry * ry)
    corrected = False
    if lam > 1:
        sq = math.sqrt(lam)
        rx *= sq
        ry *= sq
        corrected = True
    num = rx * rx * ry * ry - rx * rx * y1 * y1 - ry * ry * x1 * x1
    den = rx * rx * y1 * y1 + ry * ry * x1 * x1
    co = math.sqrt(max(0.0, num / den)) if den else 0.0
    if bool(fa) == bool(fs):
        co = -co
    cxp = co * rx * y1 / ry
    cyp = -co * ry * x1 / rx
    cx = c * cxp - s * cyp + (p0[0] + p1[0]) / 2.0
    cy = s * cxp + c * cyp + (p0[1] + p1[1]) / 2.0

    def ang(ux, uy, vx, vy):
        return math.atan2(ux * vy - uy * vx, ux * vx + uy * vy)

    ux, uy = (x1 - cxp) / rx, (y1 - cyp) / ry
    vx, vy = (-x1 - cxp) / rx, (-y1 - cyp) / ry
    th1 = ang(1.0, 0.0, ux, uy)
    dth = ang(ux, uy, vx, vy)
    if not fs and dth > 0:
        dth -= 2 * math.pi
    elif fs and dth < 0:
        dth += 2 * math.pi
    return dict(cx=cx, cy=cy, rx=rx, ry=ry, phi=phi, th1=th1, dth=dth, corrected=corrected, lam=lam)


def arc_point(pr, th):
    c, s = math.cos(pr["phi"]), math.sin(pr["phi"])
    x = pr["rx"] * math.cos(th)
    y = pr["ry"] * math.sin(th)
    return (c * x - s * y + pr["cx"], s * x + c * y + pr["cy"])


# ---------------------------------------------------------------- flattening


def _n_for(second_deriv_bound, tol):
    if second_deriv_bound <= 0:
        return 1
    n = math.sqrt(second_deriv_bound / (8.0 * tol))
    return max(1, min(400, int(math.ceil(n))))


def flatten_seg(seg, tol, out):
    """Append points of seg (excluding its start point) to out."""
    k = seg[0]
    if k == "L":
        out.append(seg[2])
    elif k == "Q":
        p0, c, p1 = seg[1], seg[2], seg[3]
        ax, ay = p0[0] - 2 * c[0] + p1[0], p0[1] - 2 * c[1] + p1[1]
        n = _n_for(2 * math.hypot(ax, ay), tol)
        for i in range(1, n):
            t = i / n
            u = 1 - t
            out.append(
                (u * u * p0[0] + 2 * u * t * c[0] + t * t * p1[0], u * u * p0[1] + 2 * u * t * c[1] + t * t * p1[1])
            )
        out.append(p1)
    elif k == "C":
        p0, c1, c2, p1 = seg[1], seg[2], seg[3], seg[4]
        d0 = math.hypot(p0[0] - 2 * c1[0] + c2[0], p0[1] - 2 * c1[1] + c2[1])
        d1 = math.hypot(c1[0] - 2 * c2[0] + p1[0], c1[1] - 2 * c2[1] + p1[1])
        n = _n_for(6 * max(d0, d1), tol)
        for i in range(1, n):
            t = i / n
            u = 1 - t
            a, b, c, d = u * u * u, 3 * u * u * t, 3 * u * t * t, t * t * t
            out.append(
                (a * p0[0] + b * c1[0] + c * c2[0] + d * p1[0], a * p0[1] + b * c1[1] + c * c2[1] + d * p1[1])
            )
        out.append(p1)
    elif k == "A":
        pr = arc_center(seg[1], seg[2], seg[3], seg[4], seg[5], seg[6], seg[7])
        if pr is None:
            return
        if pr == ("line",):
            out.append(seg[7])
            return
        r = max(pr["rx"], pr["ry"])
        step = math.sqrt(8 * tol / r) if r > 0 else 1.0
        n = max(2, min(720, int(math.ceil(abs(pr["dth"]) / max(step, 1e-4)))))
        for i in range(1, n):
            out.append(arc_point(pr, pr["th1"] + pr["dth"] * i / n))
        out.append(seg[7])
    else:
        raise ValueError(k)


def flatten_sub(sub, tol):
    pts = [sub.start]
    for s in sub.segs:
        flatten_seg(s, tol, pts)
    return pts


def extent(subs):
    xs, ys = [], []
    for sp in subs:
        xs.append(sp.start[0])
        ys.append(sp.start[1])
        for s in sp.segs:
            for p in seg_points(s):
                xs.append(p[0])
                ys.append(p[1])
            if s[0] == "A":
                xs.append(s[2])
                ys.append(s[3])
    if not xs:
        return 1.0
    return max(max(xs) - min(xs), max(ys) - min(ys), max(abs(v) for v in xs + ys), 1e-12)


def flatten(cmds, tol=None):
    """-> list of polylines (each a list of points; closed subpaths end at their start)."""
    subs = interpret(cmds)
    if tol is None:
        tol = 1e-4 * extent(subs)
    return [flatten_sub(sp, tol) for sp in subs]


# ---------------------------------------------------------------- point queries


def winding(pt, polys):
    """Winding number of pt w.r.t. polylines, each implicitly closed (fill semantics)."""
    x, y = pt
    w = 0
    for poly in polys:
        n = len(poly)
        if n < 2:
            continue
        x0, y0 = poly[-1]
        for i in range(n):
            x1, y1 = poly[i]
            if y0 <= y:
                if y1 > y and (x1 - x0) * (y - y0) - (x - x0) * (y1 - y0) > 0:
                    w += 1
            elif y1 <= y and (x1 - x0) * (y - y0) - (x - x0) * (y1 - y0) < 0:
                w -= 1
            x0, y0 = x1, y1
    return w


def inside(pt, polys, rule):
    w = winding(pt, polys)
    return (w != 0) if rule == "nonzero" else (w % 2 != 0)


def dist2_seg(x, y, x0, y0, x1, y1):
    dx, dy = x1 - x0, y1 - y0
    L = dx * dx + dy * dy
    if L == 0:
        t = 0.0
    else:
        t = ((x - x0) * dx + (y - y0) * dy) / L
        t = 0.0 if t < 0 else (1.0 if t > 1 else t)
    ex, ey = x - (x0 + t * dx), y - (y0 + t * dy)
    return ex * ex + ey * ey


def dist(pt, polys, closed=True):
    """Distance of pt to the polylines (with the implicit closing edge if closed)."""
    x, y = pt
    best = float("inf")
    for poly in polys:
        n = len(poly)
        if n == 0:
            continue
        if n == 1:
            d = (x - poly[0][0]) ** 2 + (y - poly[0][1]) ** 2
            if d < best:
                best = d
            continue
        rng = range(n) if closed else range(1, n)
        for i in rng:
            x0, y0 = poly[i - 1]
            x1, y1 = poly[i]
            d = dist2_seg(x, y, x0, y0, x1, y1)
            if d < best:
                best = d
    return math.sqrt(best)


def hausdorff(polyA, polyB):
    """Symmetric Hausdorff distance between two open polylines (vertex-to-polyline)."""

    def one(a, b):
        m = 0.0
        for p in a:
            d = dist(p, [b], closed=False)
            if d > m:
                m = d
        return m

    if not polyA or not polyB:
        return 0.0 if (not polyA and not polyB) else float("inf")
    return max(one(polyA, polyB), one(polyB, polyA))


def _within_one(a, b, lim2):
    """Is every vertex of polyline a within sqrt(lim2) of polyline b?  Early exits and a
    locality heuristic (search b's segments outwards from the last hit)."""
    m = len(b)
    if m == 1:
        bx, by = b[0]
        for (x, y) in a:
            if (x - bx) ** 2 + (y - by) ** 2 > lim2:
                return False, (x, y)
        return True, None
    last = 1
    for (x, y) in a:
        found = False
        # outward search from `last`
        lo, hi = last, last + 1
        while lo >= 1 or hi < m:
            if lo >= 1:
                x0, y0 = b[lo - 1]
                x1, y1 = b[lo]
                if dist2_seg(x, y, x0, y0, x1, y1) <= lim2:
                    found = True
                    last = lo
                    break
                lo -= 1
            if hi < m:
                x0, y0 = b[hi - 1]
                x1, y1 = b[hi]
                if dist2_seg(x, y, x0, y0, x1, y1) <= lim2:
                    found = True
                    last = hi
                    break
                hi += 1
        if not found:
            return False, (x, y)
    return True, None


def hausdorff_within(polyA, polyB, lim):
    """-> (ok, witness_point): symmetric vertex-to-polyline Hausdorff distance <= lim?"""
    if not polyA or not polyB:
        return (not polyA and not polyB), None
    lim2 = lim * lim
    ok, w = _within_one(polyA, polyB, lim2)
    if not ok:
        return False, w
    return _within_one(polyB, polyA, lim2)


# ---------------------------------------------------------------- tight bounding box


def _quad_ext(p0, c, p1):
    den = p0 - 2 * c + p1
    if den != 0:
        t = (p0 - c) / den
        if 0 < t < 1:
            u = 1 - t
            yield u * u * p0 + 2 * u * t * c + t * t * p1


def _cubic_ext(p0, c1, c2, p1):
    a = -p0 + 3 * c1 - 3 * c2 + p1
    b = 2 * (p0 - 2 * c1 + c2)
    c = c1 - p0
    ts = []
    if abs(a) < 1e-14 * (abs(b) + abs(c) + 1e-300):
        if b != 0:
            ts.append(-c / b)
    else:
        disc = b * b - 4 * a * c
        if disc >= 0:
            sq = math.sqrt(disc)
            ts.extend([(-b + sq) / (2 * a), (-b - sq) / (2 * a)])
    for t in ts:
        if 0 < t < 1:
            u = 1 - t
            yield u * u * u * p0 + 3 * u * u * t * c1 + 3 * u * t * t * c2 + t * t * t * p1


def tight_bbox(cmds, only_drawn=False):
    """(xmin, ymin, xmax, ymax) from analytic extrema, or None if there are no points.
    only_drawn: subpaths that consist of a bare moveto do not contribute - nor do subpaths whose only
    segments are arcs with coincident end points, which SVG (F.6.2) omits entirely."""
    subs = interpret(cmds)
    xs, ys = [], []
    for sp in subs:
        if only_drawn and not any(not (s[0] == "A" and s[1] == s[7]) for s in sp.segs):
            continue
        xs.append(sp.start[0])
        ys.append(sp.start[1])
        for s in sp.segs:
            k = s[0]
            for p in (s[1], s[-1]):
                xs.append(p[0])
                ys.append(p[1])
            if k == "Q":
                xs.extend(_quad_ext(s[1][0], s[2][0], s[3][0]))
                ys.extend(_quad_ext(s[1][1], s[2][1], s[3][1]))
            elif k == "C":
                xs.extend(_cubic_ext(s[1][0], s[2][0], s[3][0], s[4][0]))
                ys.extend(_cubic_ext(s[1][1], s[2][1], s[3][1], s[4][1]))
            elif k == "A":
                pr = arc_center(s[1], s[2], s[3], s[4], s[5], s[6], s[7])
                if pr is None or pr == ("line",):
                    continue
                c, sn = math.cos(pr["phi"]), math.sin(pr["phi"])
                tx = math.atan2(-pr["ry"] * sn, pr["rx"] * c)
                ty = math.atan2(pr["ry"] * c, pr["rx"] * sn)
                lo, hi = sorted((pr["th1"], pr["th1"] + pr["dth"]))
                for base in (tx, ty):
                    for kk in range(-4, 5):
                        th = base + kk * math.pi
                        if lo < th < hi:
                            p = arc_point(pr, th)
                            xs.append(p[0])
                            ys.append(p[1])
    if not xs:
        return None
    return (min(xs), min(ys), max(xs), max(ys))


# ---------------------------------------------------------------- transforms on primitives


def apply_affine_pts(m, pts):
    a, b, c, d, e, f = m
    return [(a * x + c * y + e, b * x + d * y + f) for x, y in pts]


def polygon_area(poly):
    s = 0.0
    n = len(poly)
    for i in range(n):
        x0, y0 = poly[i - 1]
        x1, y1 = poly[i]
        s += x0 * y1 - x1 * y0
    return s / 2.0
