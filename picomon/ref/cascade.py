"""Reference property resolution (SVG 1.1 styling chapter): presentation attributes,
style declarations (which win over attributes), inheritance.  Independent of picosvg."""

INHERITED = (
    "fill",
    "fill-rule",
    "fill-opacity",
    "stroke",
    "stroke-width",
    "stroke-linecap",
    "stroke-linejoin",
    "stroke-miterlimit",
    "stroke-dasharray",
    "stroke-dashoffset",
    "stroke-opacity",
    "clip-rule",
)
NON_INHERITED = ("opacity", "display", "clip-path", "overflow")
INITIAL = {
    "fill": "black",
    "fill-rule": "nonzero",
    "fill-opacity": "1",
    "stroke": "none",
    "stroke-width": "1",
    "stroke-linecap": "butt",
    "stroke-linejoin": "miter",
    "stroke-miterlimit": "4",
    "stroke-dasharray": "none",
    "stroke-dashoffset": "0",
    "stroke-opacity": "1",
    "clip-rule": "nonzero",
    "opacity": "1",
    "display": "inline",
    "clip-path": "none",
}
ALL = INHERITED + NON_INHERITED


def own_props(el):
    """Properties specified on the element itself: attributes, then style overrides."""
    p = {}
    for k in ALL:
        v = el.get(k)
        if v is not None:
            p[k] = v.strip()
    st = el.get("style")
    if st:
        for decl in st.split(";"):
            if ":" in decl:
                k, v = decl.split(":", 1)
                k, v = k.strip(), v.strip()
                if k in ALL:
                    p[k] = v
    return p


def resolve(el, inherited):
    """-> (computed, to_pass_on): computed has every property; to_pass_on only inherited ones."""
    own = own_props(el)
    comp = {}
    for k in INHERITED:
        comp[k] = own.get(k, inherited.get(k, INITIAL[k]))
        if comp[k] == "inherit":
            comp[k] = inherited.get(k, INITIAL[k])
    for k in NON_INHERITED:
        comp[k] = own.get(k, INITIAL.get(k, ""))
    return comp, {k: comp[k] for k in INHERITED}


def num(v, default):
    try:
        return float(v)
    except Exception:
        return default


def clamp01(x):
    return max(0.0, min(1.0, x))


NAMED = {
    "black": (0, 0, 0), "white": (255, 255, 255), "red": (255, 0, 0), "lime": (0, 255, 0), "blue": (0, 0, 255),
    "yellow": (255, 255, 0), "cyan": (0, 255, 255), "aqua": (0, 255, 255), "magenta": (255, 0, 255), "fuchsia": (255, 0, 255),
    "green": (0, 128, 0), "navy": (0, 0, 128), "maroon": (128, 0, 0), "olive": (128, 128, 0), "purple": (128, 0, 128),
    "teal": (0, 128, 128), "gray": (128, 128, 128), "grey": (128, 128, 128), "silver": (192, 192, 192), "orange": (255, 165, 0),
    "pink": (255, 192, 203), "brown": (165, 42, 42), "gold": (255, 215, 0), "indigo": (75, 0, 130), "violet": (238, 130, 238),
}


def rgb(s):
    """-> (r, g, b) in 0..1 or None for unknown / non-colour paints."""
    s = s.strip().lower()
    if s in NAMED:
        return tuple(v / 255.0 for v in NAMED[s])
    if s.startswith("#"):
        h = s[1:]
        try:
            if len(h) == 3:
                return tuple(int(c * 2, 16) / 255.0 for c in h)
            if len(h) == 6:
                return tuple(int(h[i : i + 2], 16) / 255.0 for i in (0, 2, 4))
        except ValueError:
            return None
    return None
