"""Reference point-sampling SVG evaluator (independent of picosvg and Skia).

build(xml_text) -> Scene.  Scene.stack(p, eps) -> ordered list of (paint, kind) covering
p bottom->top, or None if p is within eps of an edge that matters (NEAR).
Scene.color(p, eps) -> premultiplied RGBA or None.

Rendering model per SVG 1.1: painters model, group opacity via compositing,
clip regions = union of clipPath children under their clip-rule in the user space of
the referencing element, use = generated group with translate(x,y), nested svg =
viewport transform + overflow clip.  Semantic decisions: DESIGN.md 2.3.1.
"""
import math
import re
import xml.etree.ElementTree as ET

from picomon.ref import affine as RA, cascade as CS, pathgeom as PG, pathgrammar as G, shapes as RS

SVGNS = "{http://www.w3.org/2000/svg}"
XLINK = "{http://www.w3.org/1999/xlink}href"
SHAPES = {"path", "rect", "circle", "ellipse", "line", "polyline", "polygon"}
NEVER = {"defs", "clipPath", "symbol", "linearGradient", "radialGradient", "title", "desc", "metadata", "style", "script",
         "mask", "filter", "pattern", "marker", "text", "image", "foreignObject", "switch", "a"}


class RefError(Exception):
    """The reference cannot interpret the document (outside its supported subset)."""


def local(tag):
    return tag.split("}", 1)[1] if isinstance(tag, str) and tag.startswith("{") else tag


def nums(s):
    return [float(x) for x in re.split(r"[\s,]+", s.strip()) if x]


def shape_cmds(el):
    t = local(el.tag)
    if t == "path":
        c = G.parse(el.get("d", ""))
        if c is None:
            raise RefError(f"path data not in grammar: {el.get('d')!r}")
        return c
    a = el.attrib
    if t == "rect" and (CS.num(a.get("width"), 0.0) <= 0 or CS.num(a.get("height"), 0.0) <= 0):
        raise RefError("degenerate rect (rendering disabled by the shapes chapter; not modelled)")
    if t == "circle" and CS.num(a.get("r"), 0.0) <= 0:
        raise RefError("degenerate circle")
    if t == "ellipse" and (CS.num(a.get("rx"), 0.0) <= 0 or CS.num(a.get("ry"), 0.0) <= 0):
        raise RefError("degenerate ellipse")
    return RS.outline(t, el.attrib)


class Clip:
    __slots__ = ("parts", "nested")

    def __init__(self, parts, nested):
        self.parts = parts  # [(polys, rule)]
        self.nested = nested

    def query(self, p, eps, stats=None):
        """True / False / None(NEAR)"""
        ins = False
        near = False
        for polys, rule in self.parts:
            if PG.dist(p, polys) < eps:
                near = True
            else:
                w = PG.winding(p, polys)
                if stats is not None and (w != 0) != (w % 2 != 0):
                    stats["rule_sensitive"] = stats.get("rule_sensitive", 0) + 1
                if (w != 0) if rule == "nonzero" else (w % 2 != 0):
                    ins = True
        if self.nested is not None:
            r = self.nested.query(p, eps, stats)
            if r is False:
                return False  # definitely outside the nested clip
            if r is None:
                near = True
        if near:
            return None
        return ins

    def edges(self, out):
        for polys, _ in self.parts:
            out.extend(polys)
        if self.nested:
            self.nested.edges(out)


class Group:
    __slots__ = ("opacity", "children", "clip", "tag")

    def __init__(self, opacity=1.0, clip=None, tag="g"):
        self.opacity = opacity
        self.children = []
        self.clip = clip
        self.tag = tag


class Fill:
    __slots__ = ("polys", "rule", "paint", "alpha", "ctm", "bbox", "el_id")

    def __init__(self, polys, rule, paint, alpha, ctm, bbox, el_id=None):
        self.polys, self.rule, self.paint, self.alpha, self.ctm, self.bbox, self.el_id = polys, rule, paint, alpha, ctm, bbox, el_id


class Stroke:
    __slots__ = ("subs", "params", "ctm", "inv", "paint", "alpha", "polys_root", "bbox", "cmds")

    def __init__(self, subs, params, ctm, paint, alpha, bbox, cmds=None):
        self.subs, self.params, self.ctm, self.paint, self.alpha, self.bbox = subs, params, ctm, paint, alpha, bbox
        self.cmds = cmds
        self.inv = tuple(float(v) for v in RA.inverse_exact(ctm)) if RA.det(ctm) != 0 else None
        self.polys_root = None


class Scene:
    def __init__(self, root, viewbox, ids, gradients):
        self.root = root
        self.viewbox = viewbox
        self.ids = ids
        self.gradients = gradients  # id -> element (for ref.gradient)
        self.stroke_delta = 0.4
        self.n_leaves = 0
        self.stats = {}

    # ---- stack of paints
    def stack(self, p, eps):
        out = []
        r = self._stack(self.root, p, eps, out, 1.0)
        return None if r is None else out

    def _stack(self, node, p, eps, out, op):
        if isinstance(node, Group):
            if node.clip is not None:
                c = node.clip.query(p, eps, self.stats)
                if c is False:
                    probe = []
                    for ch in node.children:
                        if self._stack(ch, p, eps, probe, 1.0) is None:
                            break
                    if probe:
                        self.stats["clip_decides"] = self.stats.get("clip_decides", 0) + 1
                    return True
                if c is None:
                    return None
                self.stats["clip_admits"] = self.stats.get("clip_admits", 0) + 1
            op2 = op * node.opacity
            for ch in node.children:
                if self._stack(ch, p, eps, out, op2) is None:
                    return None
            return True
        if isinstance(node, Fill):
            if not node.polys:
                return True
            if PG.dist(p, node.polys) < eps:
                return None
            w = PG.winding(p, node.polys)
            if (w != 0) != (w % 2 != 0):
                self.stats["rule_sensitive"] = self.stats.get("rule_sensitive", 0) + 1
            if ((w != 0) if node.rule == "nonzero" else (w % 2 != 0)) and op * node.alpha > 0:
                out.append((node.paint, "fill", op * node.alpha))
            return True
        if isinstance(node, Stroke):
            from picomon.ref import stroke as RSK

            r = RSK.query(node, p, self.stroke_delta, eps)
            if r is None:
                return None
            if r and op * node.alpha > 0:
                out.append((node.paint, "stroke", op * node.alpha))
            return True
        raise TypeError(node)

    # ---- composited colour (premultiplied RGBA)
    def color(self, p, eps):
        return self._color(self.root, p, eps)

    def _color(self, node, p, eps):
        if isinstance(node, Group):
            if node.clip is not None:
                c = node.clip.query(p, eps)
                if c is False:
                    return (0.0, 0.0, 0.0, 0.0)
                if c is None:
                    return None
            acc = (0.0, 0.0, 0.0, 0.0)
            for ch in node.children:
                c = self._color(ch, p, eps)
                if c is None:
                    return None
                if c[3] > 0 or any(c[:3]):
                    k = 1.0 - c[3]
                    acc = (c[0] + acc[0] * k, c[1] + acc[1] * k, c[2] + acc[2] * k, c[3] + acc[3] * k)
            o = node.opacity
            return (acc[0] * o, acc[1] * o, acc[2] * o, acc[3] * o)
        if isinstance(node, Fill):
            if not node.polys:
                return (0.0, 0.0, 0.0, 0.0)
            if PG.dist(p, node.polys) < eps:
                return None
            if not PG.inside(p, node.polys, node.rule):
                return (0.0, 0.0, 0.0, 0.0)
            return self._paint_color(node, p)
        if isinstance(node, Stroke):
            from picomon.ref import stroke as RSK

            r = RSK.query(node, p, self.stroke_delta, eps)
            if r is None:
                return None
            if not r:
                return (0.0, 0.0, 0.0, 0.0)
            return self._paint_color(node, p)
        raise TypeError(node)

    def _paint_color(self, leaf, p):
        paint = leaf.paint
        if paint.startswith("url("):
            from picomon.ref import gradient as RG

            c = RG.color_at(self, leaf, p)
            if c is None:
                return None
            r, g, b, a = c
        else:
            c = CS.rgb(paint)
            if c is None:
                raise RefError(f"unknown paint {paint!r}")
            r, g, b = c
            a = 1.0
        a *= leaf.alpha
        return (r * a, g * a, b * a, a)

    # ---- helpers for sampling
    def edge_polys(self):
        out = []
        self._edges(self.root, out)
        return out

    def _edges(self, node, out):
        if isinstance(node, Group):
            if node.clip is not None:
                node.clip.edges(out)
            for ch in node.children:
                self._edges(ch, out)
        elif isinstance(node, Fill):
            out.extend(node.polys)
        elif isinstance(node, Stroke):
            if node.polys_root is None:
                node.polys_root = [PG.apply_affine_pts(node.ctm, poly) for poly, _ in node.subs]
            out.extend(node.polys_root)

    def leaves(self):
        out = []

        def rec(n):
            if isinstance(n, Group):
                for c in n.children:
                    rec(c)
            else:
                out.append(n)

        rec(self.root)
        return out


def parse_viewbox(root):
    vb = root.get("viewBox")
    if vb:
        v = nums(vb)
        if len(v) == 4:
            return tuple(v)
    w, h = root.get("width"), root.get("height")
    if w and h:
        try:
            return (0.0, 0.0, float(w), float(h))
        except ValueError:
            pass
    return None


def build(xml_text, flat_tol=None):
    root = ET.fromstring(xml_text) if isinstance(xml_text, (str, bytes)) else xml_text
    if local(root.tag) != "svg":
        raise RefError("root is not svg")
    ids = {}
    for e in root.iter():
        i = e.get("id")
        if i is not None and i not in ids:
            ids[i] = e
    vb = parse_viewbox(root) or (0.0, 0.0, 100.0, 100.0)
    ext = max(vb[2], vb[3], 1e-9)
    tol = flat_tol if flat_tol is not None else 2e-4 * ext
    scene = Scene(None, vb, ids, {})
    b = _Builder(scene, ids, tol)
    comp, passon = CS.resolve(root, {})
    top = Group(CS.clamp01(CS.num(comp["opacity"], 1.0)), None, "svg")
    if comp["display"] != "none":
        for ch in root:
            b.walk(ch, RA.I, passon, top, (vb[2], vb[3]), 0)
    scene.root = top
    return scene


class _Builder:
    def __init__(self, scene, ids, tol):
        self.scene, self.ids, self.tol = scene, ids, tol

    def flatten(self, cmds, m):
        subs = PG.interpret(cmds)
        out = []
        for sp in subs:
            pts = PG.flatten_sub(sp, self.tol / max(1e-9, math.sqrt(abs(m[0] * m[3] - m[1] * m[2])) or 1.0))
            if len(pts) >= 2:
                out.append(PG.apply_affine_pts(m, pts))
        return out

    def clip_for(self, url, ctm, depth=0):
        if depth > 8:
            raise RefError("clip-path reference cycle")
        m = re.match(r"^url\(#([^)]+)\)$", url.strip())
        if not m:
            raise RefError(f"unsupported clip-path value {url!r}")
        cp = self.ids.get(m.group(1))
        if cp is None or local(cp.tag) != "clipPath":
            raise RefError(f"clip-path target {url!r} missing or not a clipPath")
        if cp.get("clipPathUnits", "userSpaceOnUse") != "userSpaceOnUse":
            raise RefError("clipPathUnits not supported")
        cm = RA.mul(ctm, RA.parse_float_transform(cp.get("transform")))
        cprops, cpass = CS.resolve(cp, {})
        parts = []
        for ch in cp:
            t = local(ch.tag)
            el = ch
            m2 = cm
            props, _ = CS.resolve(ch, cpass)
            if props["display"] == "none":
                continue
            if t == "use":
                tgt = self.ids.get((ch.get(XLINK) or ch.get("href") or "")[1:])
                if tgt is None:
                    raise RefError("dangling use in clipPath")
                m2 = RA.mul(RA.mul(cm, RA.parse_float_transform(ch.get("transform"))), (1, 0, 0, 1, CS.num(ch.get("x"), 0.0), CS.num(ch.get("y"), 0.0)))
                _, upass = CS.resolve(ch, cpass)
                el = tgt
                props, _ = CS.resolve(tgt, upass)
                t = local(tgt.tag)
            if t not in SHAPES:
                continue
            m3 = RA.mul(m2, RA.parse_float_transform(el.get("transform")))
            polys = self.flatten(shape_cmds(el), m3)
            if polys:
                parts.append((polys, props["clip-rule"] if props["clip-rule"] in ("nonzero", "evenodd") else "nonzero"))
        nested = None
        ncp = cprops["clip-path"]
        if ncp and ncp != "none":
            nested = self.clip_for(ncp, cm, depth + 1)
        return Clip(parts, nested)

    def walk(self, el, ctm, inh, parent, vpsize, depth, via_use=False):
        if depth > 60:
            raise RefError("reference nesting too deep (cycle?)")
        if not isinstance(el.tag, str):
            return
        if not el.tag.startswith(SVGNS):
            return
        t = local(el.tag)
        if t in NEVER:
            return
        comp, passon = CS.resolve(el, inh)
        if comp["display"] == "none":
            return
        op = CS.clamp01(CS.num(comp["opacity"], 1.0))
        if t == "svg":
            x, y = CS.num(el.get("x"), 0.0), CS.num(el.get("y"), 0.0)
            w, h = CS.num(el.get("width"), vpsize[0]), CS.num(el.get("height"), vpsize[1])
            if el.get("viewBox"):
                vb = nums(el.get("viewBox"))
                par = (el.get("preserveAspectRatio") or "xMidYMid").split()
                align = par[0]
                mos = par[1] if len(par) > 1 else "meet"
                if vb[2] <= 0 or vb[3] <= 0 or w <= 0 or h <= 0:
                    raise RefError("degenerate nested viewport")
                m = RA.mul(ctm, tuple(float(v) for v in RA.viewport_transform(tuple(vb), (x, y, w, h), align, mos)))
                newvp = (vb[2], vb[3])
            else:
                m = RA.mul(ctm, (1, 0, 0, 1, x, y))
                newvp = (w, h)
            clip = None
            if (comp.get("overflow") or el.get("overflow") or "hidden") not in ("visible", "auto"):
                rect = [(x, y), (x + w, y), (x + w, y + h), (x, y + h)]
                clip = Clip([([PG.apply_affine_pts(ctm, rect)], "nonzero")], None)
            g = Group(op, clip, "svg")
            # a clip-path property on the svg element is not generated
            parent.children.append(g)
            for ch in el:
                self.walk(ch, m, passon, g, newvp, depth + 1)
            return
        m = RA.mul(ctm, RA.parse_float_transform(el.get("transform")))
        if t == "use":
            m = RA.mul(m, (1, 0, 0, 1, CS.num(el.get("x"), 0.0), CS.num(el.get("y"), 0.0)))
        clip = None
        cp = comp["clip-path"]
        if cp and cp != "none":
            clip = self.clip_for(cp, m)
        if t == "g":
            g = Group(op, clip, "g")
            parent.children.append(g)
            for ch in el:
                self.walk(ch, m, passon, g, vpsize, depth + 1)
            return
        if t == "use":
            href = el.get(XLINK) or el.get("href") or ""
            tgt = self.ids.get(href[1:]) if href.startswith("#") else None
            if tgt is None:
                raise RefError(f"dangling use {href!r}")
            if local(tgt.tag) in ("symbol", "svg"):
                raise RefError("use of symbol/svg not supported")
            g = Group(op, clip, "use")
            parent.children.append(g)
            self.walk(tgt, m, passon, g, vpsize, depth + 1, via_use=True)
            return
        if t in SHAPES:
            g = Group(op, clip, t)
            parent.children.append(g)
            cmds = shape_cmds(el)
            if not cmds:
                return
            fo = CS.clamp01(CS.num(comp["fill-opacity"], 1.0))
            bbox = None
            if comp["fill"] != "none":
                polys = self.flatten(cmds, m)
                if comp["fill"].startswith("url("):
                    bbox = PG.tight_bbox(cmds)
                rule = comp["fill-rule"] if comp["fill-rule"] in ("nonzero", "evenodd") else "nonzero"
                g.children.append(Fill(polys, rule, comp["fill"], fo, m, bbox, el.get("id")))
                self.scene.n_leaves += 1
            if comp["stroke"] != "none":
                from picomon.ref import stroke as RSK

                sw = CS.num(comp["stroke-width"], 1.0)
                if sw > 0:
                    params = RSK.params_from(comp)
                    subs = RSK.local_subpaths(cmds, self.tol)
                    so = CS.clamp01(CS.num(comp["stroke-opacity"], 1.0))
                    g.children.append(Stroke(subs, params, m, comp["stroke"], so, PG.tight_bbox(cmds), cmds))
                    self.scene.n_leaves += 1
            return
        # unknown SVG element: outside the supported subset
        raise RefError(f"unsupported element <{t}>")
