"""Three-valued membership in the ideal SVG stroke region (painting.html#StrokeProperties),
evaluated in the shape's local coordinate system.  Independent of Skia.

query(leaf, p_root, delta, eps) -> True (definitely inside) / False (definitely outside) / None (uncertain)
"""
import math
import re

from picomon.ref import cascade as CS, pathgeom as PG


def params_from(comp):
    da = comp["stroke-dasharray"]
    dashes = []
    if da and da != "none":
        dashes = [float(v) for v in re.split(r"[\s,]+", da.strip()) if v]
        if len(dashes) % 2:
            dashes = dashes + dashes
        if any(v < 0 for v in dashes) or sum(dashes) <= 0:
            dashes = []
    return dict(
        width=CS.num(comp["stroke-width"], 1.0),
        cap=comp["stroke-linecap"],
        join=comp["stroke-linejoin"],
        miterlimit=CS.num(comp["stroke-miterlimit"], 4.0),
        dashes=dashes,
        offset=CS.num(comp["stroke-dashoffset"], 0.0),
    )


def _plen(pts):
    return sum(math.hypot(pts[i][0] - pts[i - 1][0], pts[i][1] - pts[i - 1][1]) for i in range(1, len(pts)))


class _Sub(tuple):
    """(points, closed) with an estimate of how far an engine that measures arclength on a
    coarse flattening (Skia's contour measure works to ~0.5 units) may drift along it."""

    drift = 0.0


def local_subpaths(cmds, tol):
    out = []
    for sp in PG.interpret(cmds):
        pts = PG.flatten_sub(sp, tol)
        # drop consecutive duplicates
        q = [pts[0]]
        for p in pts[1:]:
            if p != q[-1]:
                q.append(p)
        item = _Sub((q, sp.closed))
        fine = _plen(q)
        coarse = _plen(PG.flatten_sub(sp, 0.5))
        item.drift = 2.0 * max(0.0, fine - coarse) + 0.003 * fine
        out.append(item)
    return out


class Piece:
    __slots__ = ("pts", "cum", "total", "full_closed", "miter", "for_in", "for_out", "seam", "vinfo", "whole_open", "slack")

    def __init__(self, pts, full_closed):
        self.pts = pts
        self.full_closed = full_closed
        self.cum = [0.0]
        for i in range(1, len(pts)):
            self.cum.append(self.cum[-1] + math.hypot(pts[i][0] - pts[i - 1][0], pts[i][1] - pts[i - 1][1]))
        self.total = self.cum[-1]
        self.miter = None
        self.for_in = self.for_out = True
        self.seam = None  # (point, radius): start vertex of a closed dashed subpath
        self.vinfo = None  # per vertex: None | (turn, (mx, my)) outer bisector of a join
        self.whole_open = False  # the piece is a whole undashed open subpath: its ends are real caps
        self.slack = 0.0  # a widened dash piece: its ends are within this arclength of the engine's dash ends


def _cut(pts, a, b):
    """Sub-polyline of pts between arclengths a and b."""
    out = []
    acc = 0.0
    for i in range(1, len(pts)):
        p0, p1 = pts[i - 1], pts[i]
        L = math.hypot(p1[0] - p0[0], p1[1] - p0[1])
        s0, s1 = acc, acc + L
        if L > 0 and s1 >= a and s0 <= b:
            t0 = max(0.0, (a - s0) / L)
            t1 = min(1.0, (b - s0) / L)
            q0 = (p0[0] + t0 * (p1[0] - p0[0]), p0[1] + t0 * (p1[1] - p0[1]))
            q1 = (p0[0] + t1 * (p1[0] - p0[0]), p0[1] + t1 * (p1[1] - p0[1]))
            if not out:
                out.append(q0)
            if q1 != out[-1]:
                out.append(q1)
        acc = s1
    return out


def pieces_for(leaf):
    P = leaf.params
    pcs = []
    for sub in leaf.subs:
        pts, closed = sub
        drift = getattr(sub, "drift", 0.0)
        if len(pts) < 2:
            if pts and P["cap"] in ("round", "square"):
                # a zero-length subpath: SVG draws a cap-shaped dot if it has a drawing command, and the
                # orientation of a square one is the engine's choice - nothing is claimed within cap reach
                dot = Piece([pts[0], pts[0]], False)
                dot.for_in = False
                dot.seam = (pts[0], (math.sqrt(2.0) if P["cap"] == "square" else 1.0) * P["width"] / 2.0)
                pcs.append(dot)
            continue
        if not P["dashes"]:
            pc = Piece(pts, closed)
            pc.whole_open = not closed
            pcs.append(pc)
            continue
        total = _plen(pts)
        if closed and len(pts) >= 3:
            # Whether the dash that meets the start point of a closed subpath gets caps or is
            # joined to the first dash is engine-defined: nothing is claimed within the reach of
            # a join/cap there.
            ax, ay = pts[-1][0] - pts[-2][0], pts[-1][1] - pts[-2][1]
            bx, by = pts[1][0] - pts[0][0], pts[1][1] - pts[0][1]
            la, lb = math.hypot(ax, ay), math.hypot(bx, by)
            reach = math.sqrt(2.0) * P["width"] / 2.0
            if la and lb and P["join"] == "miter":
                cosang = max(-1.0, min(1.0, (ax * bx + ay * by) / (la * lb)))
                reach = max(reach, _miter_reach(math.acos(cosang), P["miterlimit"], P["width"] / 2.0))
            seam = Piece([pts[0], pts[0]], False)
            seam.for_in = False
            seam.seam = (pts[0], reach)
            pcs.append(seam)
        period = sum(P["dashes"])
        pos = -(P["offset"] % period)  # pattern position 0 sits at arclength `pos`
        # walk pattern intervals until past the end
        s = pos
        guard = 0
        # (a dash that would begin exactly at - or, with drift, just before - the end of the subpath
        # is a tie: the engine may emit a zero-length dash there, i.e. a cap-shaped dot)
        while s < total + drift + 0.05 and guard < 100000:
            on = True
            for d in P["dashes"]:
                if on:
                    # the engine may place this dash up to `me` earlier or later (arclength drift),
                    # and a dash boundary that coincides with an end of the path is a tie
                    me = drift * min(1.0, max(0.0, s + d) / total) + 0.05
                    a2, b2 = max(0.0, s) + me, min(total, s + d) - me
                    if b2 > a2:
                        q = _cut(pts, a2, b2)
                        if len(q) >= 2:
                            pc = Piece(q, False)
                            pc.for_out = False
                            pcs.append(pc)
                    a3, b3 = max(0.0, s - me), min(total, s + d + me)
                    if b3 > a3:
                        q = _cut(pts, a3, b3)
                        if len(q) >= 2:
                            pc = Piece(q, False)
                            pc.for_in = False
                            pc.slack = 2.0 * me
                            pcs.append(pc)
                s += d
                on = not on
                guard += 1
    # miter lengths at interior vertices
    w2 = P["width"] / 2.0
    for pc in pcs:
        if pc.seam is None:
            pc.miter = _miters(pc, P, w2)
            pc.vinfo = _vertex_info(pc)
    return pcs


def _vertex_info(pc):
    """Turning angle and unit outer bisector at every join vertex of the piece."""
    pts = pc.pts
    n = len(pts)
    out = [None] * n

    def info(a0, v, b1):
        ax, ay = v[0] - a0[0], v[1] - a0[1]
        bx, by = b1[0] - v[0], b1[1] - v[1]
        la, lb = math.hypot(ax, ay), math.hypot(bx, by)
        if la == 0 or lb == 0:
            return None
        ax, ay, bx, by = ax / la, ay / la, bx / lb, by / lb
        cr = ax * by - ay * bx
        dt_ = max(-1.0, min(1.0, ax * bx + ay * by))
        turn = math.acos(dt_)
        # outer side is opposite to the turning direction: outer normals are (ay, -ax) for a left turn (cr > 0)
        sgn = 1.0 if cr > 0 else -1.0
        mx, my = sgn * (ay + by), sgn * (-ax - bx)
        lm = math.hypot(mx, my)
        if lm == 0:
            return (turn, (0.0, 0.0))
        return (turn, (mx / lm, my / lm))

    for i in range(1, n - 1):
        out[i] = info(pts[i - 1], pts[i], pts[i + 1])
    if pc.full_closed and n >= 3:
        out[0] = out[n - 1] = info(pts[n - 2], pts[0], pts[1])
    return out


_TURN_SLACK = 0.1  # rad: the chords of a flattened curve miss the tangents at a join by up to this much (both sides together)


def _miter_reach(turn, limit, w2):
    """How far a miter join may reach from the vertex.  The turning angle comes from flattened
    chords, so near the miter limit it is uncertain whether the engine (which uses the true
    tangents) still miters: if the smallest possible ratio is within the limit, the reach is the
    largest possible one, capped at the limit."""
    def ratio(t):
        c = math.cos(min(math.pi, max(0.0, t)) / 2.0)
        return 1.0 / c if c > 1e-9 else float("inf")

    if ratio(turn - _TURN_SLACK) > limit:
        return w2
    return w2 * min(limit, ratio(turn + _TURN_SLACK))


def _miters(pc, P, w2):
    n = len(pc.pts)
    out = [w2] * n
    if P["join"] != "miter":
        return out
    idx = range(1, n - 1)
    pts = pc.pts
    for i in idx:
        ax, ay = pts[i][0] - pts[i - 1][0], pts[i][1] - pts[i - 1][1]
        bx, by = pts[i + 1][0] - pts[i][0], pts[i + 1][1] - pts[i][1]
        la, lb = math.hypot(ax, ay), math.hypot(bx, by)
        if la == 0 or lb == 0:
            continue
        cosang = max(-1.0, min(1.0, (ax * bx + ay * by) / (la * lb)))  # cos of turning angle
        # interior angle theta = pi - turning; miter ratio = 1/sin(theta/2) = 1/cos(turn/2)
        turn = math.acos(cosang)
        out[i] = _miter_reach(turn, P["miterlimit"], w2)
    if pc.full_closed and n >= 3:
        # the closing vertex joins last and first segment
        ax, ay = pts[-1][0] - pts[-2][0], pts[-1][1] - pts[-2][1]
        bx, by = pts[1][0] - pts[0][0], pts[1][1] - pts[0][1]
        la, lb = math.hypot(ax, ay), math.hypot(bx, by)
        if la and lb:
            cosang = max(-1.0, min(1.0, (ax * bx + ay * by) / (la * lb)))
            out[0] = out[-1] = _miter_reach(math.acos(cosang), P["miterlimit"], w2)
    return out


_CACHE = {}


def query(leaf, p, delta, eps):
    if leaf.inv is None:
        return False
    key = id(leaf)
    pcs = _CACHE.get(key)
    if pcs is None or pcs[0] is not leaf:
        pcs = (leaf, pieces_for(leaf))
        if len(_CACHE) > 5000:
            _CACHE.clear()
        _CACHE[key] = pcs
    pcs = pcs[1]
    a, b, c, d, e, f = leaf.inv
    x, y = a * p[0] + c * p[1] + e, b * p[0] + d * p[1] + f
    m = leaf.ctm
    # smallest singular value of the 2x2 part of the CTM
    A, B, C, D = m[0], m[2], m[1], m[3]
    s1 = A * A + B * B + C * C + D * D
    s2 = math.sqrt(max(0.0, (A * A + B * B - C * C - D * D) ** 2 + 4 * (A * C + B * D) ** 2))
    smin = math.sqrt(max(1e-300, (s1 - s2) / 2.0))
    dt = delta + eps / smin
    P = leaf.params
    w2 = P["width"] / 2.0
    r_in = w2 - dt
    r_out = w2 + dt
    rcap = math.sqrt(2.0) * w2 if P["cap"] == "square" else w2
    join = P["join"]
    possibly = False  # possibly covered by the stroke (=> not definitely outside)
    for pc in pcs:
        pts = pc.pts
        n = len(pts)
        if pc.seam is not None:
            (vx, vy), reach = pc.seam
            if (x - vx) ** 2 + (y - vy) ** 2 <= (reach + dt) ** 2:
                possibly = True
            continue
        for i in range(1, n):
            x0, y0 = pts[i - 1]
            x1, y1 = pts[i]
            dx, dy = x1 - x0, y1 - y0
            L2 = dx * dx + dy * dy
            if L2 == 0:
                continue
            L = math.sqrt(L2)
            t = ((x - x0) * dx + (y - y0) * dy) / L2
            along = t * L
            perp = abs((x - x0) * dy - (y - y0) * dx) / L
            if perp <= r_out:
                lo, hi = -dt, L + dt
                if not pc.full_closed:
                    # caps extend the first / last segment (square) - round caps are discs, below
                    if i == 1 and P["cap"] == "square":
                        lo = -w2 - dt
                    if i == n - 1 and P["cap"] == "square":
                        hi = L + w2 + dt
                if pc.for_out and lo <= along <= hi:
                    possibly = True
                if pc.for_in and r_in > 0 and 0.0 < t < 1.0 and perp < r_in:
                    if pc.full_closed:
                        return True
                    sarc = pc.cum[i - 1] + along
                    if dt <= sarc <= pc.total - dt:
                        return True
        # joins
        for i in range(n):
            vi = pc.vinfo[i]
            if vi is None:
                continue
            turn, (mx, my) = vi
            vx, vy = pts[i]
            d2 = (x - vx) ** 2 + (y - vy) ** 2
            if pc.for_in and join == "round" and r_in > 0 and d2 < r_in * r_in and turn > 0.3:
                # a round join adds only the pie sector between the two outer normals (the inner side
                # is covered by the segment rectangles, if at all): stay dt inside that sector
                dd = math.sqrt(d2)
                if dd > dt and (x - vx) * mx + (y - vy) * my >= dd * math.cos(max(0.0, turn / 2.0 - math.asin(dt / dd))):
                    if pc.full_closed or dt <= pc.cum[min(i, n - 1)] <= pc.total - dt:
                        return True
            if not pc.for_out or possibly:
                continue
            if join == "round" or turn < 0.15:
                if d2 <= r_out * r_out:
                    possibly = True
            elif join == "miter" and pc.miter[i] > w2 * (1 + 1e-12):
                r = pc.miter[i] + dt
                if d2 <= r * r:
                    possibly = True
            else:
                # bevel (or a miter beyond the limit): the triangle up to the bevel edge
                h = w2 * math.cos(turn / 2.0)
                if d2 <= r_out * r_out and (x - vx) * mx + (y - vy) * my <= h + dt:
                    possibly = True
        # caps at the ends of an open piece
        if not pc.full_closed:
            for k, (vx, vy) in enumerate((pts[0], pts[-1])):
                d2 = (x - vx) ** 2 + (y - vy) ** 2
                if P["cap"] == "round":
                    if pc.for_out and d2 <= (r_out + pc.slack) ** 2:
                        possibly = True
                    if pc.for_in and pc.whole_open and r_in > 0 and d2 < r_in * r_in:
                        return True
                elif P["cap"] == "square" and pc.for_out and not pc.whole_open and d2 <= (rcap + dt + pc.slack) ** 2:
                    # the end of a dash that falls within the slack of a vertex may be capped along
                    # either adjoining segment: nothing is claimed within the reach of a cap there
                    possibly = True
    return None if possibly else False


def min_curvature_radius(cmds, tol=0.01, near=None, within=None):
    """Smallest radius of curvature along the curved segments of a path (inf if none),
    estimated on a fine flattening (corners between segments are joins, not curvature).
    With near/within only locations closer than `within` to the point `near` count."""
    best = float("inf")
    for sp in PG.interpret(cmds):
        for sg in sp.segs:
            if sg[0] == "L":
                continue
            pts = [sg[1]]
            PG.flatten_seg(sg, tol, pts)
            for i in range(1, len(pts) - 1):
                ax, ay = pts[i][0] - pts[i - 1][0], pts[i][1] - pts[i - 1][1]
                bx, by = pts[i + 1][0] - pts[i][0], pts[i + 1][1] - pts[i][1]
                la, lb = math.hypot(ax, ay), math.hypot(bx, by)
                if la == 0 or lb == 0:
                    continue
                cr = ax * by - ay * bx
                dt = ax * bx + ay * by
                th = abs(math.atan2(cr, dt))
                if near is not None and math.hypot(pts[i][0] - near[0], pts[i][1] - near[1]) > within:
                    continue
                if th > 1e-9:
                    best = min(best, 0.5 * (la + lb) / th)
    return best


def arc_cubics(seg):
    """Own conversion of an arc primitive into cubic pieces of at most 90 degrees (standard
    4/3*tan(dtheta/4) construction) - used only to hand arcs to the engine as curves."""
    pr = PG.arc_center(*seg[1:])
    if pr is None:
        return []
    if pr == ("line",):
        return [(seg[1], seg[7], seg[7])]
    n = max(1, int(math.ceil(abs(pr["dth"]) / (math.pi / 2) - 1e-9)))
    out = []
    c, s_ = math.cos(pr["phi"]), math.sin(pr["phi"])

    def pt(x, y):
        return (c * x * pr["rx"] - s_ * y * pr["ry"] + pr["cx"], s_ * x * pr["rx"] + c * y * pr["ry"] + pr["cy"])

    for i in range(n):
        a0 = pr["th1"] + pr["dth"] * i / n
        a1 = pr["th1"] + pr["dth"] * (i + 1) / n
        k = 4.0 / 3.0 * math.tan((a1 - a0) / 4.0)
        p1 = pt(math.cos(a0) - k * math.sin(a0), math.sin(a0) + k * math.cos(a0))
        p2 = pt(math.cos(a1) + k * math.sin(a1), math.sin(a1) - k * math.cos(a1))
        e = seg[7] if i == n - 1 else pt(math.cos(a1), math.sin(a1))
        out.append((p1, p2, e))
    return out


def engine_path(cmds):
    """A skia-pathops path built from reference-interpreted commands (arcs as own cubics)."""
    import pathops

    path = pathops.Path()
    for sp in PG.interpret(cmds):
        path.moveTo(*sp.start)
        for sg in sp.segs:
            if sg[0] == "L":
                path.lineTo(*sg[2])
            elif sg[0] == "Q":
                path.quadTo(*sg[2], *sg[3])
            elif sg[0] == "C":
                path.cubicTo(*sg[2], *sg[3], *sg[4])
            else:
                for c1, c2, e in arc_cubics(sg):
                    path.cubicTo(*c1, *c2, *e)
        if sp.closed:
            path.close()
    return path


def engine_direct_contains(leaf, p_root, tolerance=0.1, simplify=True):
    """Stroke the leaf's own geometry by calling skia-pathops directly from the harness with
    the parameters SVG prescribes, and report whether the result covers p_root.
    Used only to attribute a deviation from the ideal stroke to the engine."""
    import pathops

    if leaf.inv is None or leaf.cmds is None:
        return None
    P = leaf.params
    caps = {"butt": pathops.LineCap.BUTT_CAP, "round": pathops.LineCap.ROUND_CAP, "square": pathops.LineCap.SQUARE_CAP}
    joins = {"miter": pathops.LineJoin.MITER_JOIN, "round": pathops.LineJoin.ROUND_JOIN, "bevel": pathops.LineJoin.BEVEL_JOIN}
    if P["cap"] not in caps or P["join"] not in joins:
        return None
    path = engine_path(leaf.cmds)
    path.stroke(P["width"], caps[P["cap"]], joins[P["join"]], P["miterlimit"], list(P["dashes"]), P["offset"])
    path.convertConicsToQuads(tolerance)
    if simplify:
        try:
            path.simplify(fix_winding=True)
        except Exception:
            pass
    cmds = []
    names = {pathops.PathVerb.MOVE: "M", pathops.PathVerb.LINE: "L", pathops.PathVerb.QUAD: "Q", pathops.PathVerb.CUBIC: "C", pathops.PathVerb.CLOSE: "Z"}
    for verb, pts in path:
        if verb not in names:
            return None
        cmds.append((names[verb], tuple(float(v) for pt in pts for v in pt)))
    a, b, c, d, e, f = leaf.inv
    x, y = a * p_root[0] + c * p_root[1] + e, b * p_root[0] + d * p_root[1] + f
    polys = PG.flatten(cmds, tol=1e-3)
    return PG.winding((x, y), polys) != 0


def has_retraced_edge(cmds, tol=1e-6):
    """Does some straight segment of the path run back over (part of) another one of the same
    subpath (collinear, opposite direction, overlapping)?  E.g. a two-point polygon."""
    for sp in PG.interpret(cmds):
        lines = [s_ for s_ in sp.segs if s_[0] == "L" and s_[1] != s_[2]]
        for i in range(len(lines)):
            for j in range(i + 1, len(lines)):
                (a0, a1), (b0, b1) = lines[i][1:3], lines[j][1:3]
                ax, ay = a1[0] - a0[0], a1[1] - a0[1]
                bx, by = b1[0] - b0[0], b1[1] - b0[1]
                la = math.hypot(ax, ay)
                if abs(ax * by - ay * bx) > tol * la * math.hypot(bx, by):
                    continue  # not parallel
                if abs((b0[0] - a0[0]) * ay - (b0[1] - a0[1]) * ax) > tol * la * la:
                    continue  # not collinear
                if ax * bx + ay * by >= 0:
                    continue  # same direction
                ta = sorted((((b0[0] - a0[0]) * ax + (b0[1] - a0[1]) * ay) / (la * la), ((b1[0] - a0[0]) * ax + (b1[1] - a0[1]) * ay) / (la * la)))
                if ta[1] > tol and ta[0] < 1 - tol:
                    return True
    return False
