"""Reference recursive-descent parser for the SVG 1.1 path-data BNF (paths.html#PathDataBNF),
with the 2nd-edition erratum that makes comma-wsp before the large-arc flag optional.
Independent of picosvg.  Greedy, as the spec prescribes ("consume as much of a given
BNF production as possible").

parse(text) -> list of (cmd, args) in *exploded* form (one entry per argument set, implicit
lineto after moveto applied), or None when the string is not in the grammar.
parse_ex(text) -> (commands_or_None, error_position, number_tokens, unexploded_or_None)
"""

WSP = " \t\n\r"
DIGITS = "0123456789"
ARITY = dict(m=2, z=0, l=2, h=1, v=1, c=6, s=4, q=4, t=2, a=7)


class _P:
    def __init__(self, t):
        self.t = t
        self.i = 0
        self.tokens = []  # raw number tokens

    def peek(self):
        return self.t[self.i] if self.i < len(self.t) else ""

    def wsp(self):
        while self.i < len(self.t) and self.t[self.i] in WSP:
            self.i += 1

    def comma_wsp(self):
        j = self.i
        self.wsp()
        if self.peek() == ",":
            self.i += 1
            self.wsp()
            return True
        return self.i > j

    def digits(self):
        j = self.i
        while self.i < len(self.t) and self.t[self.i] in DIGITS:
            self.i += 1
        return self.i > j

    def number(self, signed=True):
        j = self.i
        if signed and self.peek() in ("+", "-") and self.peek() != "":
            self.i += 1
        a = self.digits()
        if self.peek() == ".":
            self.i += 1
            b = self.digits()
            if not a and not b:
                self.i = j
                return None
        elif not a:
            self.i = j
            return None
        if self.peek() in ("e", "E") and self.peek() != "":
            m = self.i
            self.i += 1
            if self.peek() in ("+", "-") and self.peek() != "":
                self.i += 1
            if not self.digits():
                self.i = m
        tok = self.t[j : self.i]
        self.tokens.append(tok)
        return float(tok)

    def flag(self):
        if self.peek() in ("0", "1") and self.peek() != "":
            self.i += 1
            return int(self.t[self.i - 1])
        return None

    def args(self, cmd):
        n = ARITY[cmd.lower()]
        out = []
        ntok = len(self.tokens)
        start = self.i
        for k in range(n):
            if k > 0:
                self.comma_wsp()
            if cmd in "aA" and k in (3, 4):
                v = self.flag()
            elif cmd in "aA" and k in (0, 1):
                v = self.number(signed=False)
            else:
                v = self.number()
            if v is None:
                del self.tokens[ntok:]
                self.i = start
                return None
            out.append(v)
        return tuple(out)


def parse_ex(t):
    p = _P(t)
    p.wsp()
    out = []
    segs = []
    if p.i == len(t):
        return [], None, [], []
    first = True
    while p.i < len(t):
        c = t[p.i]
        if c.lower() not in ARITY or not c.isascii():
            return None, p.i, p.tokens, None
        if first and c not in "mM":
            return None, p.i, p.tokens, None
        first = False
        p.i += 1
        p.wsp()
        if c in "zZ":
            out.append((c, ()))
            segs.append((c, ()))
            continue
        a = p.args(c)
        if a is None:
            return None, p.i, p.tokens, None
        out.append((c, a))
        flat = list(a)
        cur = {"M": "L", "m": "l"}.get(c, c)
        while True:
            j = p.i
            p.comma_wsp()
            a = p.args(cur)
            if a is None:
                consumed = t[j : p.i]
                p.i = j
                p.wsp()
                if "," in consumed:
                    return None, j, p.tokens, None
                break
            out.append((cur, a))
            flat.extend(a)
        segs.append((c, tuple(flat)))
    return out, None, p.tokens, segs


def parse(t):
    return parse_ex(t)[0]


def has_redundant_leading_zero(tokens):
    for tok in tokens:
        s = tok.lstrip("+-")
        if len(s) > 1 and s[0] == "0" and s[1] in DIGITS:
            return True
    return False
