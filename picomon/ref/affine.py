"""Reference 2x3 affine algebra (exact rationals), SVG 1.1 transform-list parser
(coords.html#TransformAttribute BNF) and the viewport transform algorithm
(coords.html#ComputingAViewportsTransform).  Independent of picosvg.

Matrices are 6-tuples (a, b, c, d, e, f):  x' = a x + c y + e ;  y' = b x + d y + f.
"""
import math
from fractions import Fraction as Fr

I = (1, 0, 0, 1, 0, 0)
WSP = " \t\n\r"
DIG = "0123456789"


def mul(m1, m2):
    """m1 @ m2 : apply m2 first, then m1."""
    a1, b1, c1, d1, e1, f1 = m1
    a2, b2, c2, d2, e2, f2 = m2
    return (
        a1 * a2 + c1 * b2,
        b1 * a2 + d1 * b2,
        a1 * c2 + c1 * d2,
        b1 * c2 + d1 * d2,
        a1 * e2 + c1 * f2 + e1,
        b1 * e2 + d1 * f2 + f1,
    )


def apply(m, p):
    a, b, c, d, e, f = m
    return (a * p[0] + c * p[1] + e, b * p[0] + d * p[1] + f)


def frac(m):
    return tuple(Fr(v) for v in m)


def det(m):
    return m[0] * m[3] - m[1] * m[2]


def inverse_exact(m):
    m = frac(m)
    D = det(m)
    if D == 0:
        return None
    a, b, c, d, e, f = m
    ia, ib, ic, id_ = d / D, -b / D, -c / D, a / D
    return (ia, ib, ic, id_, -(ia * e + ic * f), -(ib * e + id_ * f))


def cond2x2(m):
    """Frobenius-norm condition number of the 2x2 part (float)."""
    a, b, c, d = (float(v) for v in m[:4])
    D = abs(a * d - b * c)
    n2 = a * a + b * b + c * c + d * d
    if D == 0:
        return float("inf")
    return n2 / D


def op_matrix(op, args):
    """Matrix of one transform operation per the spec; args are floats."""
    n = len(args)
    if op == "matrix" and n == 6:
        return tuple(args)
    if op == "translate" and n in (1, 2):
        return (1, 0, 0, 1, args[0], args[1] if n == 2 else 0)
    if op == "scale" and n in (1, 2):
        return (args[0], 0, 0, args[1] if n == 2 else args[0], 0, 0)
    if op == "rotate" and n in (1, 3):
        r = math.radians(args[0])
        c, s = math.cos(r), math.sin(r)
        rot = (c, s, -s, c, 0, 0)
        if n == 3:
            cx, cy = args[1], args[2]
            rot = frac(mul(mul(frac((1, 0, 0, 1, cx, cy)), frac(rot)), frac((1, 0, 0, 1, -cx, -cy))))
        return rot
    if op == "skewX" and n == 1:
        return (1, 0, math.tan(math.radians(args[0])), 1, 0, 0)
    if op == "skewY" and n == 1:
        return (1, math.tan(math.radians(args[0])), 0, 1, 0, 0)
    return None


class _P:
    def __init__(self, t):
        self.t, self.i = t, 0

    def peek(self):
        return self.t[self.i] if self.i < len(self.t) else ""

    def wsp(self):
        j = self.i
        while self.i < len(self.t) and self.t[self.i] in WSP:
            self.i += 1
        return self.i > j

    def comma_wsp(self):
        j = self.i
        self.wsp()
        if self.peek() == ",":
            self.i += 1
            self.wsp()
            return True
        return self.i > j

    def digits(self):
        j = self.i
        while self.i < len(self.t) and self.t[self.i] in DIG:
            self.i += 1
        return self.i > j

    def number(self):
        j = self.i
        if self.peek() and self.peek() in "+-":
            self.i += 1
        a = self.digits()
        if self.peek() == ".":
            self.i += 1
            b = self.digits()
            if not a and not b:
                self.i = j
                return None
        elif not a:
            self.i = j
            return None
        if self.peek() and self.peek() in "eE":
            m = self.i
            self.i += 1
            if self.peek() and self.peek() in "+-":
                self.i += 1
            if not self.digits():
                self.i = m
        return float(self.t[j : self.i])


OPS = ("matrix", "translate", "scale", "rotate", "skewX", "skewY")


def parse_list(t):
    """-> list of (op, [floats]) or None if not in the SVG 1.1 grammar."""
    p = _P(t)
    p.wsp()
    out = []
    if p.i == len(t):
        return out
    while True:
        for op in OPS:
            if t.startswith(op, p.i):
                p.i += len(op)
                break
        else:
            return None
        p.wsp()
        if p.peek() != "(":
            return None
        p.i += 1
        p.wsp()
        args = []
        v = p.number()
        if v is None:
            return None
        args.append(v)
        while True:
            j = p.i
            if not p.comma_wsp():
                break
            v = p.number()
            if v is None:
                p.i = j
                break
            args.append(v)
        p.wsp()
        if p.peek() != ")":
            return None
        p.i += 1
        if op_matrix(op, args) is None:
            return None
        out.append((op, args))
        j = p.i
        p.wsp()
        if p.i == len(t):
            return out
        p.i = j
        # comma-wsp+ between transforms
        if not p.comma_wsp():
            return None
        while p.comma_wsp():
            pass
        if p.i == len(t):
            return None  # trailing comma


def list_matrix(ops):
    """Product of the listed operations, in order (first listed is outermost/left factor)."""
    m = frac(I)
    for op, args in ops:
        m = mul(m, frac(op_matrix(op, args)))
    return m


def viewport_transform(vb, vp, align="xMidYMid", meet_or_slice="meet"):
    """vb=(x,y,w,h) viewBox, vp=(x,y,w,h) viewport; align like 'xMidYMid' or 'none'."""
    vbx, vby, vbw, vbh = vb
    ex, ey, ew, eh = vp
    sx = ew / vbw
    sy = eh / vbh
    if align != "none":
        s = min(sx, sy) if meet_or_slice == "meet" else max(sx, sy)
        sx = sy = s
    tx = ex - vbx * sx
    ty = ey - vby * sy
    if align != "none":
        if "xMid" in align:
            tx += (ew - vbw * sx) / 2
        elif "xMax" in align:
            tx += ew - vbw * sx
        if "YMid" in align:
            ty += (eh - vbh * sy) / 2
        elif "YMax" in align:
            ty += eh - vbh * sy
    return (sx, 0, 0, sy, tx, ty)


ALIGNS = (
    "none",
    "xMinYMin",
    "xMidYMin",
    "xMaxYMin",
    "xMinYMid",
    "xMidYMid",
    "xMaxYMid",
    "xMinYMax",
    "xMidYMax",
    "xMaxYMax",
)


def parse_float_transform(s):
    """Lenient float evaluation of a transform attribute for the rendering model
    (accepts what parse_list accepts, plus missing separators between operations)."""
    ops = parse_list(s or "")
    if ops is None:
        import re

        ops = []
        for name, args in re.findall(r"(matrix|translate|scale|rotate|skewX|skewY)\s*\(([^)]*)\)", s or ""):
            v = [float(x) for x in re.split(r"[\s,]+", args.strip()) if x]
            if op_matrix(name, v) is None:
                raise ValueError(f"bad transform {s!r}")
            ops.append((name, v))
    m = I
    for op, args in ops:
        m = mul(m, tuple(float(v) for v in op_matrix(op, args)))
    return tuple(float(v) for v in m)
