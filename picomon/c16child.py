"""Child process for C16: converts a batch of documents in the given order and reports a
digest of each output.  Run with a chosen PYTHONHASHSEED in a fresh interpreter.
stdin: JSON {"jobs": [[doc_text, ndigits, allow_text, drop_unsupported], ...]}
stdout: one JSON line per job: {"i": index, "digest": sha256 | null, "exc": type | null}
"""
import hashlib
import json
import os
import sys


def main():
    from picomon import bootstrap

    bootstrap.setup()
    from picosvg.svg import SVG

    jobs = json.load(sys.stdin)["jobs"]
    out = sys.stdout
    for i, (doc, nd, at, du) in enumerate(jobs):
        try:
            s = SVG.fromstring(doc).topicosvg(ndigits=nd, allow_text=at, drop_unsupported=du).tostring()
            out.write(json.dumps({"i": i, "digest": hashlib.sha256(s.encode()).hexdigest(), "exc": None}) + "\n")
        except RecursionError as e:
            out.write(json.dumps({"i": i, "digest": None, "exc": "RecursionError"}) + "\n")
        except Exception as e:
            out.write(json.dumps({"i": i, "digest": None, "exc": type(e).__name__ + ":" + str(e)[:80]}) + "\n")
    out.flush()


if __name__ == "__main__":
    main()
