"""Entry point: python -m picomon.main <ID> --tier quick|thorough [--replay FILE]

Exit codes: 0 held on everything observed (KNOWN-FINDING lines allowed),
1 violation (prints VIOLATION property=<id> replay=<path>), 2 inconclusive.
"""
import argparse
import importlib
import json
import os
import subprocess
import sys
import tempfile
import time

from picomon import bootstrap
from picomon.reach import merge_reports

VERIF = bootstrap.VERIF_DIR


def load_ledger():
    p = os.path.join(VERIF, "known_findings.json")
    if not os.path.exists(p):
        return []
    with open(p) as f:
        return json.load(f).get("findings", [])


def main(argv=None):
    ap = argparse.ArgumentParser()
    ap.add_argument("pid")
    ap.add_argument("--tier", default=os.environ.get("VERIF_TIER", "quick"))
    ap.add_argument("--replay")
    ap.add_argument("--jobs", type=int, default=int(os.environ.get("VERIF_JOBS", "16")))
    ap.add_argument("--keep-logs", action="store_true")
    a = ap.parse_args(argv)
    if os.environ.get("VERIF_TIER") in ("quick", "thorough") and "--tier" not in (argv or sys.argv):
        a.tier = os.environ["VERIF_TIER"]
    pid = a.pid.upper()
    seed = int(os.environ.get("VERIF_SEED", "0") or 0)
    os.environ.setdefault("PYTHONHASHSEED", "0")
    t0 = time.time()
    try:
        bootstrap.setup()
    except Exception as e:
        print(f"INCONCLUSIVE property={pid} reason=bootstrap:{e}")
        return 2
    mod = importlib.import_module(f"picomon.drivers.{pid.lower()}")
    drv = mod.D()

    if a.replay:
        return do_replay(drv, pid, a.replay)

    tier = a.tier
    cases = drv.cases(tier, seed)
    ncases = len(cases)
    jobs = max(1, min(a.jobs, ncases))
    budget = drv.time_budget.get(tier, 600)
    if os.environ.get("VERIF_BUDGET_S"):
        budget = float(os.environ["VERIF_BUDGET_S"])
    deadline = time.time() + budget
    tmp = tempfile.mkdtemp(prefix=f"picomon-{pid}-", dir=os.environ.get("VERIF_SCRATCH", "/var/tmp"))
    procs = []
    env = dict(os.environ)
    env["PYTHONPATH"] = VERIF + os.pathsep + env.get("PYTHONPATH", "")
    env.setdefault("PYTHONHASHSEED", "0")
    for s in range(jobs):
        of = os.path.join(tmp, f"shard{s}.jsonl")
        ef = open(os.path.join(tmp, f"shard{s}.err"), "w")
        p = subprocess.Popen(
            [sys.executable, "-B", "-m", "picomon.worker", pid, tier, str(seed), str(s), str(jobs), of, str(deadline)],
            cwd=VERIF,
            env=env,
            stdout=ef,
            stderr=ef,
        )
        procs.append((p, of, ef))
    hard = budget * 3 + 300
    lost = []
    for s, (p, of, ef) in enumerate(procs):
        try:
            p.wait(timeout=max(5, t0 + hard - time.time()))
        except subprocess.TimeoutExpired:
            p.kill()
            p.wait()
            lost.append((s, "watchdog"))
        ef.close()
        if p.returncode not in (0, None) and (s, "watchdog") not in lost:
            lost.append((s, f"exit {p.returncode}"))

    results, finals, fatals = [], [], []
    for s, (p, of, ef) in enumerate(procs):
        if not os.path.exists(of):
            continue
        with open(of) as f:
            for line in f:
                line = line.strip()
                if not line:
                    continue
                try:
                    r = json.loads(line)
                except Exception:
                    continue
                if "_final" in r:
                    finals.append(r)
                elif "_fatal" in r:
                    fatals.append(r["_fatal"])
                else:
                    results.append(r)
    errtail = ""
    if lost or fatals:
        for s, _ in lost:
            try:
                with open(os.path.join(tmp, f"shard{s}.err")) as f:
                    errtail += f.read()[-800:]
            except Exception:
                pass

    # ---- merge
    evals = 0
    nt_set, nt_count = set(), 0
    counters, features, samples = {}, {}, []
    viols = []
    errors, timeouts = [], []
    for r in results:
        if r.get("_timeout"):
            timeouts.append(r.get("case"))
            continue
        if "_error" in r:
            errors.append({"error": r["_error"], "case": r.get("case"), "tb": r.get("_tb")})
            continue
        evals += r.get("evals", 0)
        nt = r.get("nt", [])
        if isinstance(nt, int):
            nt_count += nt
        else:
            nt_set.update(nt)
        for k, v in r.get("counters", {}).items():
            counters[k] = counters.get(k, 0) + v
        for k, v in r.get("features", {}).items():
            features[k] = features.get(k, 0) + v
        if r.get("sample") is not None and len(samples) < 6:
            samples.append(r["sample"])
        viols.extend(r.get("viol", []))
    try:
        viols.extend(drv.postprocess(results, tier, seed) or [])
    except Exception as e:
        errors.append({"error": f"postprocess: {type(e).__name__}: {e}"})
    monitor_evals = {}
    for f in finals:
        for k, v in f.get("monitor_evals", {}).items():
            monitor_evals[k] = monitor_evals.get(k, 0) + v
    skipped = sum(f.get("skipped_for_time", 0) for f in finals)
    reach = merge_reports([f.get("reach", {}) for f in finals])
    distinct_nt = len(nt_set) + nt_count + int(getattr(drv, "_nt", 0) or 0)
    if getattr(drv, "_sample", None) is not None and len(samples) < 6:
        samples.append(drv._sample)

    # ---- ledger
    ledger = [e for e in load_ledger() if e.get("property") == pid]
    open_mechs = {e["mech"]: e for e in ledger if e.get("status") == "open"}
    known_seen = {}
    new_by_sig = {}
    for v in viols:
        mech = v.get("mech")
        if mech and mech in open_mechs:
            known_seen.setdefault(mech, []).append(v)
        else:
            sig = v.get("sig") or v.get("rule") or "?"
            new_by_sig.setdefault(sig, []).append(v)

    os.makedirs(os.path.join(VERIF, "replays"), exist_ok=True)
    out_lines = []
    for mech, vs in known_seen.items():
        e = open_mechs[mech]
        out_lines.append(f"KNOWN-FINDING: property={pid} {e['what_fails']} [mech={mech}; {len(vs)} witness(es) this run]")
    vio_lines = []
    for sig, vs in list(new_by_sig.items())[:5]:
        v = min(vs, key=lambda x: len(json.dumps(x.get("replay", {}), default=str)))
        name = "".join(c if c.isalnum() else "_" for c in sig)[:60]
        path = os.path.join(VERIF, "replays", f"{pid}_{name}_{seed}.json")
        with open(path, "w") as f:
            json.dump({"property": pid, "rule": v.get("rule"), "sig": sig, "mech": v.get("mech"),
                       "msg": v.get("msg"), "replay": v.get("replay"), "tree": bootstrap.tree_info(),
                       "count_same_sig": len(vs)}, f, indent=1, default=str)
        vio_lines.append(f"VIOLATION property={pid} replay={path}")
        out_lines.append(f"  ({sig}: {str(v.get('msg'))[:300]})")

    # ---- inconclusive conditions
    reasons = []
    if fatals:
        reasons.append("worker-fatal:" + fatals[0][:200])
    if len(lost) > max(1, jobs // 4):
        reasons.append(f"lost-workers:{lost}")
    for m in drv.deciding_monitors:
        if monitor_evals.get(m, 0) == 0:
            reasons.append(f"deciding-monitor-never-evaluated:{m}")
    floors = drv.feature_floors.get(tier, drv.feature_floors) if drv.feature_floors else {}
    if floors and isinstance(next(iter(floors.values())), dict):
        floors = floors.get(tier, {})
    for k, mn in (floors or {}).items():
        got = features.get(k, counters.get(k, 0))
        if got < mn and skipped == 0:
            reasons.append(f"feature-floor:{k}={got}<{mn}")
    if distinct_nt < drv.nt_floor.get(tier, 2):
        reasons.append(f"nontrivial={distinct_nt}<{drv.nt_floor.get(tier, 2)}")
    if evals == 0:
        reasons.append("no-evaluations")
    if drv.use_reach and drv.anchors:
        for label, r in reach.items():
            if r["calls"] == 0 and r["lines_hit"] == 0 and label not in getattr(drv, "optional_anchors", ()):
                reasons.append(f"anchor-unreached:{label}")
    if len(errors) > max(3, ncases // 20):
        reasons.append(f"harness-errors:{len(errors)}:{errors[0]['error'][:200]}")

    wall = time.time() - t0
    ev = {
        "property_id": pid,
        "tier": tier,
        "seed": seed,
        "level": drv.level,
        "coverage": {
            "evaluations": int(evals),
            "distinct_nontrivial": int(distinct_nt),
            "rule": drv.rule,
            "samples": samples or [{"note": "no sample recorded"}],
            "cases_planned": ncases,
            "cases_run": len(results),
            "cases_skipped_for_time": skipped,
            "monitor_evaluations": monitor_evals,
            "counters": counters,
            "feature_histogram": features,
            "mechanisms_reached": reach,
            "known_findings_seen": {k: len(v) for k, v in known_seen.items()},
            "new_violation_signatures": {k: len(v) for k, v in new_by_sig.items()},
            "case_timeouts": len(timeouts),
            "harness_errors": errors[:5],
            "lost_workers": lost,
            "inconclusive_reasons": reasons,
            "tree": bootstrap.tree_info(),
        },
        "assumptions": list(drv.assumptions),
        "wall_s": round(wall, 2),
        "violations": len(new_by_sig),
    }
    ev["coverage"].update(drv.extra_evidence({"counters": counters, "features": features, "results": results}) or {})
    write_evidence(pid, ev)
    for l in out_lines:
        print(l)
    for l in vio_lines:
        print(l)
    if not a.keep_logs and not (lost or fatals or errors):
        import shutil

        shutil.rmtree(tmp, ignore_errors=True)
    else:
        print(f"# worker logs kept in {tmp}")
        if errtail:
            print(errtail[-1500:])
    print(
        f"# {pid} {tier} seed={seed}: cases {len(results)}/{ncases} evals={evals} nontrivial={distinct_nt} "
        f"violations(new sigs)={len(new_by_sig)} known={sum(len(v) for v in known_seen.values())} "
        f"errors={len(errors)} timeouts={len(timeouts)} skipped={skipped} wall={wall:.1f}s"
    )
    if vio_lines:
        return 1
    if reasons:
        print(f"INCONCLUSIVE property={pid} reason={'; '.join(reasons)[:600]}")
        return 2
    return 0


def write_evidence(pid, ev):
    # evidence/ only ever describes runs against /repo itself; runs pointed at a scratch tree
    # (VERIF_REPO, e.g. the seeded-change matrix) write next to it, into an ignored directory
    sub = "evidence" if bootstrap.repo_root() == os.path.realpath("/repo") else "evidence_scratch"
    os.makedirs(os.path.join(VERIF, sub), exist_ok=True)
    path = os.path.join(VERIF, sub, f"{pid}.json")
    try:
        import jsonschema

        with open("/root/.vp/EVIDENCE.schema.json") as f:
            schema = json.load(f)
        ev2 = json.loads(json.dumps(ev, default=str))
        if ev2["coverage"]["distinct_nontrivial"] >= 2 and ev2["coverage"]["evaluations"] >= 1:
            jsonschema.validate(ev2, schema)
    except ImportError:
        pass
    except FileNotFoundError:
        pass
    except Exception as e:
        print(f"# evidence schema validation failed: {str(e)[:300]}")
    with open(path, "w") as f:
        json.dump(ev, f, indent=1, default=str, sort_keys=False)


def do_replay(drv, pid, path):
    with open(path) as f:
        rp = json.load(f)
    drv.setup_worker("quick", 0)
    viols = drv.replay(rp.get("replay", rp))
    if viols:
        open_mechs = {e["mech"]: e for e in load_ledger() if e.get("property") == pid and e.get("status") == "open"}
        for v in viols[:5]:
            print(f"replay: rule={v.get('rule')} mech={v.get('mech')} msg={str(v.get('msg'))[:500]}")
        new = [v for v in viols if v.get("mech") not in open_mechs]
        for m in sorted({v.get("mech") for v in viols if v.get("mech") in open_mechs}):
            print(f"KNOWN-FINDING: property={pid} {open_mechs[m]['what_fails'][:300]} [mech={m}]")
        if not new:
            return 0
        print(f"VIOLATION property={pid} replay={path}")
        return 1
    print(f"replay: no violation for {path} on the current tree")
    return 0


if __name__ == "__main__":
    sys.exit(main())
