"""Bootstrap: make the code under observation the *working tree* selected by VERIF_REPO.

Every process of the framework (main and workers) calls setup() first.  It puts
$VERIF_REPO/src (default /repo/src) at the front of sys.path, asserts that the
imported picosvg really lives there, and sets the hook guard variable.
"""
import hashlib
import os
import subprocess
import sys

VERIF_DIR = os.path.dirname(os.path.dirname(os.path.abspath(__file__)))
GUARD = "PICOSVG_VERIF"


class BootstrapMismatch(Exception):
    pass


def repo_root():
    return os.path.realpath(os.environ.get("VERIF_REPO", "/repo"))


def setup():
    root = repo_root()
    src = os.path.join(root, "src")
    if src in sys.path:
        sys.path.remove(src)
    sys.path.insert(0, src)
    deps = os.path.join(VERIF_DIR, ".deps")
    if deps not in sys.path:
        sys.path.append(deps)
    os.environ[GUARD] = "1"
    import picosvg  # noqa

    got = os.path.realpath(picosvg.__file__)
    if not got.startswith(src + os.sep):
        raise BootstrapMismatch(f"picosvg imported from {got}, expected under {src}")
    return root


def tree_info():
    root = repo_root()
    h = hashlib.sha256()
    d = os.path.join(root, "src", "picosvg")
    for name in sorted(os.listdir(d)):
        if name.endswith(".py"):
            with open(os.path.join(d, name), "rb") as f:
                h.update(name.encode())
                h.update(f.read())
    try:
        head = subprocess.run(
            ["git", "-C", root, "rev-parse", "HEAD"], capture_output=True, text=True, timeout=10
        ).stdout.strip()
        dirty = bool(
            subprocess.run(
                ["git", "-C", root, "status", "--porcelain", "--", "src"],
                capture_output=True,
                text=True,
                timeout=10,
            ).stdout.strip()
        )
    except Exception:
        head, dirty = "unknown", None
    return {"repo": root, "git_head": head, "src_dirty": dirty, "src_sha256": h.hexdigest()[:16]}
