"""Reach accounting and logical step counting with sys.monitoring (Python 3.12+).

* Reach(anchors): counts PY_START per picosvg function (qualname) and records the set
  of executed lines of the anchored functions (by qualified name incl. nested code).
* StepBudget: counts PY_START + backward JUMP events in picosvg code; raises
  StepBudgetExceeded from the callback once when a limit is crossed.
"""
import os
import sys
import types

mon = sys.monitoring
TOOL_REACH = 3
TOOL_STEPS = 4


def _is_picosvg(code):
    fn = code.co_filename
    return os.sep + "picosvg" + os.sep in fn and "picomon" not in fn


class Reach:
    def __init__(self, anchors=()):
        """anchors: iterable of (module_name, qualname) whose lines are tracked."""
        self.calls = {}
        self.anchor_codes = {}  # code -> label
        self.lines_hit = {}  # label -> set
        self.lines_total = {}
        self.anchors = list(anchors)
        self.active = False

    def _collect_codes(self, code, label):
        self.anchor_codes[code] = label
        tot = self.lines_total.setdefault(label, set())
        for _, _, ln in code.co_lines():
            if ln is not None and ln != code.co_firstlineno:
                tot.add(ln)
        for c in code.co_consts:
            if isinstance(c, types.CodeType):
                self._collect_codes(c, label)

    def _resolve(self, modname, qualname):
        import importlib

        obj = importlib.import_module(modname)
        for part in qualname.split("."):
            obj = obj.__dict__[part] if isinstance(obj, type) else getattr(obj, part)
        for _ in range(4):
            if isinstance(obj, (staticmethod, classmethod)):
                obj = obj.__func__
            elif isinstance(obj, property):
                obj = obj.fget
            elif hasattr(obj, "__wrapped__") and not hasattr(obj, "__code__"):
                obj = obj.__wrapped__
            else:
                break
        # unwrap monitors installed via functools.update_wrapper
        while hasattr(obj, "__wrapped__"):
            obj = obj.__wrapped__
        return obj.__code__

    def start(self):
        mon.use_tool_id(TOOL_REACH, "picomon-reach")
        for modname, qualname in self.anchors:
            label = f"{modname.split('.')[-1]}.{qualname}"
            try:
                code = self._resolve(modname, qualname)
            except Exception as e:  # anchor vanished: report as unreachable
                self.lines_total[label] = set()
                self.lines_hit[label] = set()
                self.calls.setdefault(label + " [unresolved]", 0)
                continue
            self._collect_codes(code, label)
            self.lines_hit.setdefault(label, set())
        mon.register_callback(TOOL_REACH, mon.events.PY_START, self._on_start)
        mon.register_callback(TOOL_REACH, mon.events.LINE, self._on_line)
        mon.set_events(TOOL_REACH, mon.events.PY_START)
        for code in self.anchor_codes:
            mon.set_local_events(TOOL_REACH, code, mon.events.LINE)
        self.active = True

    def _on_start(self, code, offset):
        if not _is_picosvg(code):
            return mon.DISABLE
        k = code.co_qualname
        self.calls[k] = self.calls.get(k, 0) + 1

    def _on_line(self, code, line):
        label = self.anchor_codes.get(code)
        if label is not None:
            self.lines_hit[label].add(line)
        return mon.DISABLE  # one hit per line location is enough

    def stop(self):
        if self.active:
            mon.set_events(TOOL_REACH, 0)
            for code in self.anchor_codes:
                try:
                    mon.set_local_events(TOOL_REACH, code, 0)
                except Exception:
                    pass
            mon.free_tool_id(TOOL_REACH)
            self.active = False

    def report(self):
        out = {}
        for label, tot in self.lines_total.items():
            hit = self.lines_hit.get(label, set()) & tot if tot else set()
            short = label.split(".", 1)[1] if "." in label else label
            calls = 0
            for k, v in self.calls.items():
                if k == short or k.startswith(short + ".<locals>"):
                    calls += v if k == short else 0
            out[label] = {
                "calls": self.calls.get(short, 0),
                "lines_hit": len(hit),
                "lines_total": len(tot),
                "lines_never_hit": sorted(tot - hit),
            }
        return out


def merge_reports(reports):
    """Merge per-worker Reach.report() dicts."""
    out = {}
    for rep in reports:
        for label, r in rep.items():
            o = out.setdefault(
                label, {"calls": 0, "lines_total": r["lines_total"], "_never": None}
            )
            o["calls"] += r["calls"]
            nv = set(r["lines_never_hit"])
            o["_never"] = nv if o["_never"] is None else (o["_never"] & nv)
            o["lines_total"] = max(o["lines_total"], r["lines_total"])
    for label, o in out.items():
        nv = o.pop("_never") or set()
        o["lines_never_hit"] = sorted(nv)
        o["lines_hit"] = o["lines_total"] - len(nv)
    return out


class StepBudgetExceeded(Exception):
    pass


class StepBudget:
    """Counts PY_START and backward JUMP events in picosvg code."""

    def __init__(self, limit=None):
        self.limit = limit
        self.steps = 0
        self.fired = False
        self.active = False

    def start(self):
        mon.use_tool_id(TOOL_STEPS, "picomon-steps")
        mon.register_callback(TOOL_STEPS, mon.events.PY_START, self._on_start)
        mon.register_callback(TOOL_STEPS, mon.events.JUMP, self._on_jump)
        mon.set_events(TOOL_STEPS, mon.events.PY_START | mon.events.JUMP)
        self.active = True

    def _tick(self):
        self.steps += 1
        if self.limit is not None and self.steps > self.limit and not self.fired:
            self.fired = True
            raise StepBudgetExceeded(f"more than {self.limit} steps")

    def _on_start(self, code, offset):
        if not _is_picosvg(code):
            return mon.DISABLE
        self._tick()

    def _on_jump(self, code, src, dst):
        if not _is_picosvg(code):
            return mon.DISABLE
        if dst < src:
            self._tick()

    def stop(self):
        if self.active:
            mon.set_events(TOOL_STEPS, 0)
            mon.free_tool_id(TOOL_STEPS)
            self.active = False
        return self.steps
