"""C03 - clip paths are rendered into exactly the clipped geometry."""
import re

from picomon.drivers.renderbase import RenderDriver
from picomon.driver import bump
from picomon.gen import docs as gd


class D(RenderDriver):
    pid = "C03"
    mode = "stack"
    rule = (
        "cases: the structural grammar of C02 plus clipPath elements with 1-3 children of every shape kind (stars, nested contours - "
        "nonzero != evenodd), clip-rule and fill-rule set independently, transforms on clipPath and on its children, clipPath -> "
        "clipPath chains, clip-path on shapes, groups and use, clips stacked along ancestor chains. Source and output are evaluated by "
        "the reference renderer (clip region = union of children under their clip-rule in the user space of the referencing element) "
        "and the paint stacks must be equal outside the 0.4% band of every involved edge; the output must carry no clip-path. "
        "Non-trivial = distinct documents with >= 5 retained points where the clip decides (content hidden by the clip)."
    )
    assumptions = ("reference renderer ref/render.py; scope decisions (no clip-rule inheritance, no transform+clip-path on one clipPath, no clipPathUnits) in DESIGN.md C03",)
    anchors = (
        ("picosvg.svg", "SVG._resolve_clip_path"),
        ("picosvg.svg", "SVG._traverse"),
        ("picosvg.svg", "SVG._simplify"),
        ("picosvg.svg_types", "union"),
        ("picosvg.svg_types", "intersection"),
        ("picosvg.svg_pathops", "_do_pathop"),
        ("picosvg.svg_pathops", "skia_path"),
    )
    nt_floor = {"quick": 100, "thorough": 3000}
    feature_floors = {"judged.clippath": 250, "judged.clip_on_shape": 200, "judged.clip_on_group": 70, "judged.clip_on_use": 8, "judged.clip_the_clip": 45, "judged.clip_the_clip_with_own_transform": 12, "judged.clippath_transform": 70, "judged.clip_child_transform": 140, "judged.clip_child_rule_sensitive": 200, "judged.clip_rule_evenodd": 110, "clip_on_shape": 50, "clip_on_group": 20, "clip_on_use": 5, "clip_the_clip": 20, "clippath_transform": 20,
                      "clip_child_transform": 20, "clip_rule_evenodd": 30, "src_rule_sensitive": 200, "src_clip_decides": 500}

    def gen_doc(self, rng):
        if rng.random() < 0.05:
            text, f, root = gd.use_clip_on_transformed_target_doc(rng)
            return text, f, {"root": root}
        text, f, root = gd.clipped(rng, max_depth=rng.choice((2, 3, 3)))
        return text, f, {"root": root}

    def classify(self, doc, out, mismatch, meta):
        eng = self.engine_fault(doc, out)
        if eng:
            return eng
        if not meta:
            try:
                meta = {"root": gd.from_xml(doc)}  # replay / minimisation: rebuild the tree from the text
            except Exception:
                return None
        # known mechanism: the clip of a <use> is moved onto the instantiated target and then
        # transformed by the target's own transform.  Intervention: with those uses replaced by the
        # group SVG's use semantics generate, the same document converts correctly.
        import random as _random

        from picomon import conv
        from picomon.ref import render as RR

        alt = gd.expand_clipped_uses_of_transformed_targets(meta["root"])
        if alt is None:
            return None
        st, out2 = conv.convert(gd.to_xml(alt))
        if st == "ok":
            try:
                src, dst = RR.build(doc), RR.build(out2)
                pts = conv.sample_points(src, _random.Random(3), eps=0.4) + [mismatch[0]]
                r = conv.compare_stacks(src, dst, pts, 0.4)
                if r["mismatch"] is None and r["kept"] >= 30:
                    return "use-clip-moved-onto-transformed-target"
            except Exception:
                pass
            return None
        # the intervened document does not convert (the engine refuses one of its operations): fall back
        # to simulating the mechanism in the reference - the real output must render exactly like the
        # source in which the clip sits on the transformed copy of the target
        sim = gd.simulate_clip_moved_onto_target(meta["root"])
        if sim is None:
            return None
        try:
            src, dst = RR.build(gd.to_xml(sim)), RR.build(out)
            pts = conv.sample_points(src, _random.Random(3), eps=0.4) + [mismatch[0]]
            r = conv.compare_stacks(src, dst, pts, 0.4)
            if r["mismatch"] is None and r["kept"] >= 30:
                return "use-clip-moved-onto-transformed-target"
        except Exception:
            return None
        return None

    def is_nontrivial(self, st, feats, meta):
        return st["kept"] >= 30 and st.get("src_stats", {}).get("clip_decides", 0) >= 5

    def check_doc(self, doc, res, rng, feats=None, meta=None, ndigits=3):
        r = super().check_doc(doc, res, rng, feats, meta, ndigits)
        if r:
            out = r[1]
            if re.search(r"clip-path|<clipPath", out):
                res["viol"].append(dict(rule="clip_left_in_output", sig="clip_left_in_output", msg=f"output still carries a clip: {out[:600]}",
                                        replay={"kind": "doc", "doc": doc}))
        return r
