"""C04 - strokes are rendered into equivalent filled outlines drawn above the fill."""
from picomon.drivers.renderbase import RenderDriver
from picomon.gen import docs as gd


class D(RenderDriver):
    pid = "C04"
    mode = "color"
    rule = (
        "cases: open, closed, multi-subpath and curved paths and all basic shapes with stroke-width 2-12 (viewBox 100), every cap x join "
        "combination, miterlimit 1-10, dash arrays of odd and even length with zero/negative/large offsets, stroke properties on the shape, "
        "inherited from groups / root / use or given via style, ancestor transforms incl. non-uniform scale and skew, fill=none strokes, "
        "fill+stroke at opacity 1, translucent shapes with a single visible piece. The reference decides each sample three-valued in the "
        "shape's local coordinate system (definitely inside the ideal stroke region / definitely outside / uncertain -> discarded) and the "
        "composited colours of source and output must agree. Non-trivial = distinct documents with >= 30 retained points and >= 5 non-empty."
    )
    assumptions = (
        "ideal stroke region from ref/stroke.py with delta = 0.4 local units (Skia stroker resolution 0.25 + conic tolerance) plus the 0.4% band",
        "scope as stated: own opacity 1 or only one of fill/stroke visible",
    )
    anchors = (
        ("picosvg.svg", "SVG._stroke"),
        ("picosvg.svg", "SVG._simplify"),
        ("picosvg.svg_types", "SVGShape.stroke_commands"),
        ("picosvg.svg_pathops", "stroke"),
        ("picosvg.svg", "SVG._default_tolerance"),
    )
    nt_floor = {"quick": 150, "thorough": 4000}
    feature_floors = {"dash_odd": 40, "dash_even": 40, "dash_offset": 40, "stroke_inherited_from_group": 100, "nonuniform_scale": 30, "skew": 15,
                      "multi_subpath": 50, "translucent_single_piece": 50, "use_of_stroked": 30, "stroke_prop_style": 100}

    def gen_doc(self, rng):
        text, f, root = gd.stroke_doc(rng, hairpins=rng.random() < 0.05)
        return text, f, {"root": root}

    def classify(self, doc, out, mismatch, meta):
        """Attribute a deviation from the ideal stroke to the engine when a direct,
        independent skia-pathops stroke of the same geometry with the parameters SVG
        prescribes gives the same (wrong) answer at the witness point."""
        eng = self.engine_fault(doc, out)
        if eng:
            return eng
        from picomon.ref import render as RR, stroke as RSK

        p = mismatch[0]
        try:
            src, dst = RR.build(doc), RR.build(out)
            eps = self.eps_frac * max(src.viewbox[2], src.viewbox[3])
            for lf in src.leaves():
                if not isinstance(lf, RR.Stroke):
                    continue
                ideal = RSK.query(lf, p, src.stroke_delta, eps)
                if ideal is None:
                    continue
                direct = RSK.engine_direct_contains(lf, p)
                if direct is None or direct == ideal:
                    continue
                # the engine itself disagrees with the ideal region here; does the output follow the engine?
                in_out = any(isinstance(o, RR.Fill) and o.paint == lf.paint and o.polys and
                             __import__("picomon.ref.pathgeom", fromlist=["x"]).inside(p, o.polys, o.rule) for o in dst.leaves())
                if in_out == direct:
                    a, b, c, d, e, f = lf.inv
                    pl = (a * p[0] + c * p[1] + e, b * p[0] + d * p[1] + f)
                    w = lf.params["width"]
                    r = RSK.min_curvature_radius(lf.cmds, near=pl, within=2.0 * w)
                    if r < w:
                        return "skia-stroker-tight-curvature"
                    if RSK.has_retraced_edge(lf.cmds):
                        return "skia-stroke-of-retraced-edge"
        except Exception:
            return None
        return None
