"""C04 - strokes are rendered into equivalent filled outlines drawn above the fill."""
from picomon.drivers.renderbase import RenderDriver
from picomon.gen import docs as gd


class D(RenderDriver):
    pid = "C04"
    mode = "color"
    rule = (
        "cases: open, closed, multi-subpath and curved paths and all basic shapes with stroke-width 2-12 (viewBox 100), every cap x join "
        "combination, miterlimit 1-10, dash arrays of odd and even length with zero/negative/large offsets, stroke properties on the shape, "
        "inherited from groups / root / use or given via style, ancestor transforms incl. non-uniform scale and skew, fill=none strokes, "
        "fill+stroke at opacity 1, translucent shapes with a single visible piece. The reference decides each sample three-valued in the "
        "shape's local coordinate system (definitely inside the ideal stroke region / definitely outside / uncertain -> discarded) and the "
        "composited colours of source and output must agree. Non-trivial = distinct documents with >= 30 retained points and >= 5 non-empty."
    )
    assumptions = (
        "ideal stroke region from ref/stroke.py with delta = 0.4 local units (Skia stroker resolution 0.25 + conic tolerance) plus the 0.4% band",
        "scope as stated: own opacity 1 or only one of fill/stroke visible",
    )
    anchors = (
        ("picosvg.svg", "SVG._stroke"),
        ("picosvg.svg", "SVG._simplify"),
        ("picosvg.svg_types", "SVGShape.stroke_commands"),
        ("picosvg.svg_pathops", "stroke"),
        ("picosvg.svg", "SVG._default_tolerance"),
    )
    nt_floor = {"quick": 150, "thorough": 4000}
    feature_floors = {"dash_odd": 40, "dash_even": 40, "dash_offset": 40, "stroke_inherited_from_group": 100, "nonuniform_scale": 30, "skew": 15,
                      "multi_subpath": 50, "translucent_single_piece": 50, "use_of_stroked": 30, "stroke_prop_style": 100,
                      "judged.dash_odd": 30, "judged.dash_even": 30, "judged.dash_offset": 30}

    def gen_doc(self, rng):
        text, f, root = gd.stroke_doc(rng, hairpins=rng.random() < 0.05)
        return text, f, {"root": root}

    def classify(self, doc, out, mismatch, meta):
        """Attribute a deviation from the ideal stroke to the engine when a direct,
        independent skia-pathops stroke of the same geometry with the parameters SVG
        prescribes gives the same (wrong) answer at the witness point."""
        eng = self.engine_fault(doc, out)
        if eng:
            return eng
        from picomon.ref import render as RR, stroke as RSK

        p = mismatch[0]
        # known mechanism (kind 1, bug simulation): a use target that inherits a numeric stroke property spelled
        # unlike the converter's own number format gets it as an explicit attribute; the instances then carry the
        # value of the target's original context
        try:
            root = (meta or {}).get("root") or gd.from_xml(doc)
            sim = gd.simulate_inherited_made_explicit(root)
            if sim is not None:
                import random as _random

                from picomon import conv as _conv

                ssrc, sdst = RR.build(gd.to_xml(sim)), RR.build(out)
                eps_ = self.eps_frac * max(ssrc.viewbox[2], ssrc.viewbox[3])
                pts = _conv.sample_points(ssrc, _random.Random(5), eps=eps_) + [p]
                st = _conv.compare_colors(ssrc, sdst, pts, eps_, self.color_tol, self.steep_probe)
                if st["mismatch"] is None and st["kept"] >= 30:
                    return "inherited-value-made-explicit-on-use-target"
        except Exception:
            pass
        try:
            src, dst = RR.build(doc), RR.build(out)
            eps = self.eps_frac * max(src.viewbox[2], src.viewbox[3])
            for lf in src.leaves():
                if not isinstance(lf, RR.Stroke):
                    continue
                ideal = RSK.query(lf, p, src.stroke_delta, eps)
                if ideal is None:
                    continue
                direct = RSK.engine_direct_contains(lf, p)
                if direct is None or direct == ideal:
                    continue
                # the engine itself disagrees with the ideal region here; does the output follow the engine?
                in_out = any(isinstance(o, RR.Fill) and o.paint == lf.paint and o.polys and
                             __import__("picomon.ref.pathgeom", fromlist=["x"]).inside(p, o.polys, o.rule) for o in dst.leaves())
                if in_out == direct:
                    a, b, c, d, e, f = lf.inv
                    pl = (a * p[0] + c * p[1] + e, b * p[0] + d * p[1] + f)
                    w = lf.params["width"]
                    r = RSK.min_curvature_radius(lf.cmds, near=pl, within=2.0 * w)
                    if r < w:
                        return "skia-stroker-tight-curvature"
                    if RSK.has_retraced_edge(lf.cmds):
                        return "skia-stroke-of-retraced-edge"
                    # the raw stroker output is right here, the engine's own simplify(fix_winding=True) of it is not
                    raw = RSK.engine_direct_contains(lf, p, simplify=False)
                    if raw is not None and raw == ideal:
                        return "skia-simplify-corrupts-stroke-outline"
            return self.engine_boundary(doc, src, dst, p, eps)
        except Exception:
            return None
        return None

    def engine_boundary(self, doc, src, dst, p, eps):
        """Attribution at the engine boundary: re-convert with a recorder on svg_pathops.stroke.
        For the call whose arguments are exactly what SVG prescribes for a stroked source shape
        (same parameters, same curve) and whose result disagrees with the ideal region at the
        witness point: if the engine's raw stroker outline (same arguments, no simplify) is right
        and its simplify(fix_winding=True) is what breaks it, the deviation is the engine's."""
        from picomon import conv
        from picomon.monitors import strokemon
        from picomon.ref import render as RR, stroke as RSK, curvecmp as CC, pathgeom as PG

        strokemon.install()
        del strokemon.CALLS[:]
        strokemon.STATE["record"] = True
        try:
            conv.convert(doc)
        finally:
            strokemon.STATE["record"] = False
        calls = list(strokemon.CALLS)
        del strokemon.CALLS[:]
        for lf in src.leaves():
            if not isinstance(lf, RR.Stroke) or lf.inv is None:
                continue
            ideal = RSK.query(lf, p, src.stroke_delta, eps)
            if ideal is None:
                continue
            a, b, c, d, e, f = lf.inv
            pl = (a * p[0] + c * p[1] + e, b * p[0] + d * p[1] + f)
            P = lf.params
            for call in calls:
                if (call["cap"], call["join"]) != (P["cap"], P["join"]) or abs(call["width"] - P["width"]) > 1e-9 or abs(call["miterlimit"] - P["miterlimit"]) > 1e-9:
                    continue
                if [round(v, 9) for v in call["dashes"]] != [round(v, 9) for v in P["dashes"]] or (P["dashes"] and abs(call["offset"] - P["offset"]) > 1e-9):
                    continue
                try:
                    ok, _, _ = CC.same_curve(lf.cmds, call["cmds"], curve_tol=3e-4 * CC.max_arc_radius(lf.cmds))
                except Exception:
                    ok = False
                if not ok:
                    continue
                got = PG.winding(pl, PG.flatten(call["result"], tol=1e-3)) != 0
                if got == ideal:
                    continue
                raw = PG.winding(pl, PG.flatten(strokemon.engine(call, simplify=False), tol=1e-3)) != 0
                simp = PG.winding(pl, PG.flatten(strokemon.engine(call, simplify=True), tol=1e-3)) != 0
                if raw == ideal and simp == got:
                    return "skia-simplify-corrupts-stroke-outline"
        return None
