"""C07 - conversion is idempotent: picosvg in, identical picosvg out."""
import random

from picomon import conv, events
from picomon.driver import Driver, new_result, bump, h8
from picomon.gen import docs as gd, corpus
from picomon.monitors import stagemon
from picomon.ref import picogrammar as PGm, xmlcanon


def cleanup_doc(rng):
    """Documents aimed at cleanup ordering: shapes that vanish only after rounding, groups whose
    children are partly pruned, opacity products / coordinates at rounding ties, long decimals."""
    g = gd.Gen(rng, paint=True, nested_svg=False, unique_fills=False, gradients=True)
    r = rng
    body = []
    for _ in range(r.randint(1, 3)):
        grp = gd.Node("g", {"opacity": r.choice(("0.5", "0.9996", "0.0004", "0.97", "0.04", "0.333", "0.25", "0.125", "0.6665"))})
        for i in range(r.randint(2, 3)):
            x, y = g.num(5, 60), g.num(5, 60)
            k = r.random()
            if k < 0.25:
                # sub-rounding sliver: vanishes at small ndigits
                t = r.choice((0.0004, 0.004, 0.04, 0.4))
                s = gd.Node("path", {"d": f"M{gd.fnum(x)},{gd.fnum(y)} L{gd.fnum(x + 20)},{gd.fnum(y)} L{gd.fnum(x + 20)},{gd.fnum(y + t)} Z"})
                g.f["vanishes_after_rounding"] += 1
            elif k < 0.4:
                s = gd.Node("path", {"d": f"M{gd.fnum(x)},{gd.fnum(y)}"})
                g.f["move_only_child"] += 1
            else:
                s = gd.Node("rect", {"x": repr(x + r.choice((0, 0.5, 0.05, 0.005, 0.0005))), "y": repr(y + 0.12345678), "width": gd.fnum(g.num(10, 30)), "height": gd.fnum(g.num(10, 30))})
            if r.random() < 0.5:
                s.attrs["opacity"] = r.choice(("0.333", "0.5", "0.1", "0.7777777"))
            if r.random() < 0.5:
                s.attrs["fill"] = r.choice(gd.PALETTE)
            grp.children.append(s)
        body.append(grp)
        g.f["cleanup_group"] += 1
    if r.random() < 0.6:
        gid = g.new_id("gr")
        gn = gd.gradient_node(g, r, gid, units="userSpaceOnUse")
        if r.random() < 0.5:
            gn.attrs["gradientTransform"] = f"matrix(1.23456789 0.1 0.2 0.987654321 {r.uniform(-5, 5)!r} {r.uniform(-5, 5)!r})"
            g.f["gradient_long_decimals"] += 1
        g.defs.append(gn)
        if r.random() < 0.5:
            body.append(gd.Node("rect", {"x": "1", "y": "1", "width": "6", "height": "6", "fill": f"url(#{gid})", "opacity": r.choice(("0", "0.0004"))}))
            g.f["invisible_sole_gradient_user"] += 1
        else:
            body.append(gd.Node("rect", {"x": "10", "y": "10", "width": "30", "height": "30", "fill": f"url(#{gid})", "transform": g.transform()}))
    root = g.document(body_nodes=body)
    return gd.to_xml(root), g.f, root


class D(Driver):
    pid = "C07"
    rule = (
        "cases: generated mixed documents (structure, clips, strokes, cascade, gradients, nested svg, use), cleanup-ordering documents "
        "(shapes that vanish only after rounding, partly pruned groups, opacity and coordinate values at rounding ties, gradient parameters "
        "with long decimals, invisible sole users of gradients) and the SVG files under tests/, each at ndigits in {0,1,3,6}: out1 = "
        "convert(doc), out2 = convert(out1), out3 = convert(out2) must be byte-identical and checkpicosvg(out1) must be empty. "
        "Non-trivial = distinct first outputs with >= 1 path."
    )
    assumptions = ("byte comparison of SVG.tostring() output; conversions that raise on the first pass are not judged (C17)",)
    anchors = (
        ("picosvg.svg", "SVG.topicosvg"),
        ("picosvg.svg", "SVG._remove_orphaned_gradients"),
        ("picosvg.svg", "SVG.remove_unpainted_shapes"),
        ("picosvg.svg_types", "SVGPath.round_floats"),
        ("picosvg.svg_types", "SVGShape.round_floats"),
        ("picosvg.svg_meta", "ntos"),
        ("picosvg.svg", "SVG._apply_gradient_translation"),
        ("picosvg.svg", "SVG.checkpicosvg"),
    )
    nt_floor = {"quick": 300, "thorough": 6000}
    time_budget = {"quick": 150, "thorough": 1200}

    def cases(self, tier, seed):
        n = 40 if tier == "quick" else 900
        cs = [("gen", seed, k, 30) for k in range(n)]
        files = corpus.files()
        for i in range(0, len(files), 16):
            cs.append(("corpus", i, min(len(files), i + 16), tier))
        return cs

    def setup_worker(self, tier, seed):
        stagemon.install()
        from picosvg.svg import SVG

        self.SVG = SVG

    def judge(self, res, doc, nd):
        res["evals"] += 1
        stagemon.reset()
        st, out1 = conv.convert(doc, ndigits=nd)
        if st != "ok":
            bump(res["counters"], "first_pass_exception")
            return
        stage = dict(stagemon.LAST)
        rp = {"kind": "doc", "doc": doc, "ndigits": nd}
        try:
            chk = self.SVG.fromstring(out1).checkpicosvg()
        except Exception as e:
            if events.is_harness_exc(e):
                raise
            chk = (f"checkpicosvg raised {e!r}",)
        if chk:
            res["viol"].append(dict(rule="own_check", sig="own_check", msg=f"converted document fails checkpicosvg: {chk}\nSOURCE: {doc[:2000]}", replay=rp))
            return
        st2, out2 = conv.convert(out1, ndigits=nd)
        if st2 != "ok":
            res["viol"].append(dict(rule="second_pass_raises", sig="second_pass_raises:" + type(out2).__name__,
                                    msg=f"second pass raised {out2!r}\nSOURCE: {doc[:2000]}\nOUT1: {out1[:1500]}", replay=rp))
            return
        if out2 != out1:
            mech = self.classify(out1, out2, stage, nd)
            res["viol"].append(dict(rule="not_idempotent", sig="not_idempotent" + (f":{mech}" if mech else ""), mech=mech,
                                    msg=f"[ndigits={nd}] pass 2 differs from pass 1\nSOURCE: {doc[:2500]}\nOUT1: {out1[:1500]}\nOUT2: {out2[:1500]}", replay=rp))
            return
        st3, out3 = conv.convert(out2, ndigits=nd)
        if st3 != "ok" or out3 != out2:
            res["viol"].append(dict(rule="not_idempotent_pass3", sig="not_idempotent_pass3", msg=f"pass 3 differs\nSOURCE: {doc[:2000]}", replay=rp))
            return
        bump(res["counters"], "idempotent")
        if "<path" in out1:
            res["nt"].append(h8(out1, nd))
        if res["sample"] is None and "<g " in out1:
            res["sample"] = {"source": doc[:1000], "ndigits": nd, "out1==out2==out3": True}

    def classify(self, out1, out2, stage, nd):
        """Known ordering mechanism: unpainted shapes are pruned after the group / orphan
        decisions, so pass 1 leaves a group with < 2 children or an unused gradient that
        pass 2 cleans up.  Recognised only if (a) pruning really removed something in pass 1,
        (b) the document right before pruning had neither flaw, (c) pass 1's output has one,
        and (d) pass 2 reaches a fixpoint."""
        # (1) pure re-ordering of the gradients inside <defs>
        try:
            import xml.etree.ElementTree as ET

            a, b = ET.fromstring(out1), ET.fromstring(out2)
            da, db = list(a[0]), list(b[0])
            sa = sorted(ET.tostring(x) for x in da)
            sb = sorted(ET.tostring(x) for x in db)
            if sa == sb and [ET.tostring(x) for x in da] != [ET.tostring(x) for x in db]:
                if [ET.tostring(x) for x in list(a)[1:]] == [ET.tostring(x) for x in list(b)[1:]] and a.attrib == b.attrib:
                    return "defs-order-depends-on-insertion-sequence"
        except Exception:
            pass
        if not stage.get("before") or stage["before"] == stage["after"]:
            return None
        if stage.get("stroke_junk"):
            return None  # something else than the known mechanism feeds the late pruning
        try:
            before_groups = [e for e in PGm.validate(stage["before"], 9, True) if e[0] == "group_children"]
            after_groups = [e for e in PGm.validate(out1, nd, True) if e[0] == "group_children"]
            before_orph = xmlcanon.references(stage["before"])["orphans"]
            after_orph = xmlcanon.references(out1)["orphans"]
        except Exception:
            return None
        if before_groups or before_orph:
            return None
        if not after_groups and not after_orph:
            return None
        # the clean-up may cascade (a dissolved group's opacity product rounds to 0, its shape is pruned,
        # its gradient becomes unused ...): every further pass that still changes the document must
        # start from one that shows the same flaw, and a fixpoint must be reached
        def norm(text):
            # order of <defs> children is the other known class: compare modulo that order
            try:
                import xml.etree.ElementTree as ET

                r = ET.fromstring(text)
                kids = sorted(list(r[0]), key=lambda x: ET.tostring(x))
                r[0][:] = kids
                return ET.tostring(r)
            except Exception:
                return text

        cur = out2
        for _ in range(5):
            st, nxt = conv.convert(cur, ndigits=nd)
            if st != "ok":
                return None
            if norm(nxt) == norm(cur):
                return "cleanup-before-late-pruning"
            try:
                flawed = [e for e in PGm.validate(cur, nd, True) if e[0] == "group_children"] or xmlcanon.references(cur)["orphans"]
            except Exception:
                return None
            if not flawed:
                return None
            cur = nxt
        return None

    def run_case(self, case):
        kind = case[0]
        res = new_result()
        if kind == "gen":
            _, seed, k, n = case
            rng = random.Random(f"C07-{seed}-{k}")
            for i in range(n):
                if rng.random() < 0.2:
                    text, f, root = cleanup_doc(rng)
                else:
                    text, f, root, meta = gd.mixed_doc(rng, unsupported=False, noise=rng.random() < 0.3)
                for kk, v in f.items():
                    bump(res["features"], kk, v)
                nd = rng.choice((0, 1, 3, 3, 6))
                bump(res["features"], f"ndigits_{nd}")
                self.judge(res, text, nd)
        else:
            _, a, b, tier = case
            for path in corpus.files()[a:b]:
                doc = open(path).read()
                for nd in ((0, 3) if tier == "quick" else (0, 1, 3, 6)):
                    bump(res["features"], "corpus_docs")
                    self.judge(res, doc, nd)
        for ev in events.drain():
            pass
        return res

    def replay(self, rp):
        res = new_result()
        self.judge(res, rp["doc"], rp.get("ndigits", 3))
        return res["viol"]
