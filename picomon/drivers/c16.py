"""C16 - output bytes depend only on input bytes and options."""
import hashlib
import json
import os
import random
import subprocess
import sys

from picomon import bootstrap, events
from picomon.driver import Driver, new_result, bump, h8
from picomon.gen import docs as gd, corpus


class _Labelled(list):
    """list of jobs that remembers, per entry, which branch of the pool generator made it"""

    def __init__(self):
        super().__init__()
        self.labels = []
        self.current = "corpus"

    def append(self, item):
        super().append(item)
        self.labels.append(self.current)


_NUM_ATTRS = ("x", "y", "width", "height", "cx", "cy", "r", "rx", "ry", "x1", "y1", "x2", "y2", "fx", "fy")


def _refs(n):
    out = []
    for k, v in n.attrs.items():
        if k in ("clip-path", "fill") and "url(#" in v:
            out.append(v[v.index("#") + 1:].rstrip(")"))
        if k in ("xlink:href", "href") and v.startswith("#"):
            out.append(v[1:])
    return out


def near_variant(root, rng, prefer_indirect=False):
    """A copy of the document that differs in ONE number inside a referenced element (a clipPath child,
    a gradient, a use target), everything else byte-identical: whatever is memoised across
    conversions by the markup of the *referencing* element is hit with the same key and different content.
    With prefer_indirect the number is taken from an element that is reached through another
    defs-level element (inner clipPath of a chain, gradient template) which the body really uses."""
    r = root.copy()
    byid = {n.attrs["id"]: n for n in r.iter() if n.kind == "el" and "id" in n.attrs}
    defs_level = {id(m) for n in r.iter() if n.tag in ("defs", "clipPath", "linearGradient", "radialGradient") for m in n.iter()}
    used = set()  # ids referenced from the body
    for n in r.iter():
        if n.kind == "el" and id(n) not in defs_level:
            used.update(_refs(n))
    direct = set(used)
    indirect = set()
    frontier = list(used)
    while frontier:
        i = frontier.pop()
        tgt = byid.get(i)
        if tgt is None:
            continue
        for m in tgt.iter():
            for j in _refs(m):
                if j not in indirect and j not in direct:
                    indirect.add(j)
                    frontier.append(j)

    def numbers(ids):
        out = []
        for i in sorted(ids):
            for m in (byid[i].iter() if i in byid else ()):
                for k in _NUM_ATTRS:
                    try:
                        float(m.attrs.get(k, ""))
                    except ValueError:
                        continue
                    out.append((m, k))
        return out

    cands = numbers(indirect) if prefer_indirect else []
    if not cands:
        cands = numbers(indirect) * 3 + numbers(direct)
    if not cands:
        return None
    m, k = rng.choice(cands)
    m.attrs[k] = gd.fnum(round(float(m.attrs[k]) + rng.choice((3, 7, -2.5)), 3))
    return gd.to_xml(r)


def reference_families(rng, count):
    """Families of documents that are byte-identical except for the content of an element reached
    *through* another one: the inner clipPath of a chain, a gradient's href template, a use target
    inside a clipPath.  Anything memoised across conversions by the markup (or id) of the referencing
    element meets the same key with different content."""
    out = []
    n = lambda a, b: gd.fnum(round(rng.uniform(a, b), 1))
    for fi in range(count):
        kind = ("clip_chain", "gradient_template", "use_in_clip", "sizes_without_viewbox")[fi % 4]
        if kind == "sizes_without_viewbox":
            # stroked round-capped documents that have no viewBox and differ in width / height only: whatever is
            # derived from the document size and remembered under a key that ignores it shows here
            x1, y1, x2, y2, sw = n(2, 8), n(2, 8), n(10, 18), n(10, 18), n(1, 3)
            for size in rng.sample((20, 200, 2000, 64), rng.randint(2, 3)):
                out.append(f'<svg xmlns="http://www.w3.org/2000/svg" width="{size}" height="{size}"><line x1="{x1}" y1="{y1}" x2="{x2}" y2="{y2}" '
                           f'stroke="black" stroke-width="{sw}" stroke-linecap="round" stroke-linejoin="round"/></svg>')
            continue
        tf = rng.choice(("", ' transform="translate(5 3)"', ' transform="rotate(10)"'))
        shape = f'<rect x="{n(5, 20)}" y="{n(5, 20)}" width="{n(50, 70)}" height="{n(50, 70)}" fill="{rng.choice(gd.PALETTE)}"'
        outer = f'<circle cx="{n(35, 55)}" cy="{n(35, 55)}" r="{n(25, 35)}"/>'
        fam = []
        for v in range(rng.randint(2, 3)):
            inner = f'<rect x="{n(10, 40)}" y="{n(10, 40)}" width="{n(20, 40)}" height="{n(20, 40)}"/>'
            if kind == "clip_chain":
                defs = f'<clipPath id="in">{inner}</clipPath><clipPath id="out" clip-path="url(#in)">{outer}</clipPath>'
                body = f'<g{tf}>{shape} clip-path="url(#out)"/></g>'
            elif kind == "use_in_clip":
                defs = f'{inner.replace("<rect", "<rect id=\"t\"")}<clipPath id="out"><use xlink:href="#t"/>{outer.replace("r=", "r=\"3\" data-r=")}</clipPath>'
                body = f'<g{tf}>{shape} clip-path="url(#out)"/></g>'
            else:
                stops = f'<stop offset="0" stop-color="{rng.choice(("red", "blue", "#0f0", "#ff0"))}"/><stop offset="1" stop-color="{rng.choice(("black", "white", "navy"))}"/>'
                defs = f'<linearGradient id="t" x1="{n(0, 0.4)}" x2="{n(0.6, 1)}">{stops}</linearGradient><linearGradient id="g" xlink:href="#t" gradientTransform="rotate(20)"/>'
                body = f'<g{tf}>{shape.rsplit(" fill=", 1)[0]} fill="url(#g)"/></g>'
            fam.append(f'<svg xmlns="http://www.w3.org/2000/svg" xmlns:xlink="http://www.w3.org/1999/xlink" viewBox="0 0 100 100"><defs>{defs}</defs>{body}</svg>')
        out.extend(fam)
    return out


POOL_LABELS = {}


VOCAB = ["rotate(30)", "translate(40 10) rotate(30)", "rotate(30) scale(2)", "skewX(10)", "translate(5) skewX(10)", "skewY(10) rotate(45)",
         "rotate(45)", "scale(2) rotate(45 10 10)", "rotate(45 10 10)", "translate(3 4)", "matrix(1 0 0 1 3 4)", "scale(0.5)"]


def vocab_doc(rng):
    """a small vocabulary of transform snippets shared between documents, so that anything memoised by
    text across conversions is hit with the same keys in new contexts"""
    shapes = "".join(f'<rect x="{rng.randint(0, 40)}" y="{rng.randint(0, 40)}" width="20" height="10" fill="{rng.choice(gd.PALETTE)}" transform="{rng.choice(VOCAB)}"/>'
                     for _ in range(rng.randint(1, 4)))
    return f'<svg xmlns="http://www.w3.org/2000/svg" viewBox="0 0 100 100">{shapes}</svg>'


def doc_pool(seed, tier):
    """Deterministic list of (text, ndigits, allow_text, drop_unsupported).
    POOL_LABELS[(seed, tier)] holds the class of each entry (same order)."""
    rng = random.Random(f"C16-pool-{seed}")
    pool = _Labelled()
    files = corpus.files()
    rng.shuffle(files)
    for path in files[: (25 if tier == "quick" else 120)]:
        pool.append((open(path).read(), 3, False, False))
    pool.current = "family"
    for text in reference_families(rng, 12 if tier == "quick" else 48):
        pool.append((text, 3, False, False))
    n = 60 if tier == "quick" else 500
    for i in range(n):
        k = rng.random()
        pool.current = "mixed" if k < 0.55 else "gradient" if k < 0.67 else "stroke" if k < 0.72 else "clipped" if k < 0.82 else "text" if k < 0.88 else "vocab" if k < 0.95 else "raising"
        if k < 0.55:
            text, f, root, meta = gd.mixed_doc(rng, unsupported=True, noise=rng.random() < 0.4, text_only_unsupported=True)
            at = True if meta["unsupported"] else rng.random() < 0.3
            pool.append((text, rng.choice((0, 2, 3, 3, 6)), at, rng.random() < 0.3))
            if rng.random() < 0.35:
                v = near_variant(root, rng)
                if v:
                    pool.append((v,) + pool[-1][1:])
        elif k < 0.67:
            text, f, root = gd.gradient_doc(rng)
            pool.append((text, 3, False, False))
            if rng.random() < 0.5:
                v = near_variant(root, rng)
                if v:
                    pool.append((v, 3, False, False))
        elif k < 0.72:
            text, f, root = gd.stroke_doc(rng)
            pool.append((text, 3, False, False))
        elif k < 0.82:
            # clipped documents (clipPath chains) each with one or two near-duplicates
            text, f, root = gd.clipped(rng, nested_svg=False, max_depth=2)
            pool.append((text, 3, False, False))
            for _ in range(rng.randint(1, 2)):
                v = near_variant(root, rng, prefer_indirect=True)
                if v:
                    pool.append((v, 3, False, False))
        elif k < 0.88:
            # text-heavy documents with inherited presentation attributes (allow_text path)
            g = gd.Gen(rng, paint=True, nested_svg=False, unique_fills=False)
            body = []
            for _ in range(rng.randint(1, 3)):
                grp = gd.Node("g")
                g.cascade_attrs(grp, leaf=False)
                grp.attrs.update(gd.stroke_props(g, rng))
                t = gd.Node("text", {"x": "10", "y": "20", "font-size": "10"}, [gd.Node("tspan", {"dy": "5"}, [], "b")], "a")
                grp.children = [t, g.painted_shape()]
                body.append(grp)
            root = g.document(body_nodes=body, root_attrs={"fill": "red", "stroke-linecap": "round"})
            pool.append((gd.to_xml(root), 3, True, False))
        elif k < 0.95:
            pool.append((vocab_doc(rng), 3, False, False))
        else:
            # documents that raise (exception paths must leave no state behind)
            pool.append((rng.choice(('<svg xmlns="http://www.w3.org/2000/svg"><use xlink:href="#nope" xmlns:xlink="http://www.w3.org/1999/xlink"/></svg>',
                                     '<svg xmlns="http://www.w3.org/2000/svg" viewBox="0 0 10 10"><rect width="x"/></svg>',
                                     '<svg xmlns="http://www.w3.org/2000/svg" viewBox="0 0 10 10"><filter id="f"/><rect width="5" height="5"/></svg>')), 3, False, False))
    pool.current = "vocab"
    for _ in range(10 if tier == "quick" else 40):
        pool.append((vocab_doc(rng), 3, False, False))
    POOL_LABELS[(seed, tier)] = list(pool.labels)
    return list(pool)


def key(job):
    return hashlib.sha256(json.dumps(job).encode()).hexdigest()[:20]


class D(Driver):
    pid = "C16"
    rule = (
        "cases: a pool of documents (files under tests/ + generated mixed / gradient / stroke / text documents incl. allow_text and "
        "raising ones) is converted (a) alone - one document per fresh interpreter - under PYTHONHASHSEED 0,1,2,3 and a random one, and "
        "(b) in long-lived interpreters converting batches of 20-150 documents in 4-12 random permutations with duplicates and varying "
        "options. Workers append (hash seed, batch id, position, document hash, options) -> sha256(output) | exception to an event log; the "
        "log is checked offline: every (document, options) group must contain exactly one outcome. Non-trivial = distinct (document, "
        "options) groups with >= 5 outcomes from >= 3 hash seeds and >= 2 batch positions."
    )
    assumptions = ("sha256 of SVG.tostring(); exception outcomes are compared by type and message prefix",)
    anchors = (
        ("picosvg.svg", "_inherit_attrib"),
        ("picosvg.svg", "_drop_default_attrib"),
        ("picosvg.svg", "SVG._inherited_attrib"),
        ("picosvg.svg", "SVG._new_id"),
        ("picosvg.svg", "SVG.checkpicosvg"),
    )
    use_reach = False  # conversions run in child interpreters
    nt_floor = {"quick": 40, "thorough": 300}
    time_budget = {"quick": 200, "thorough": 1500}
    case_timeout = 600

    def cases(self, tier, seed):
        pool = doc_pool(seed, tier)
        n = len(pool)
        cs = []
        alone_n = 44 if tier == "quick" else 180
        rng = random.Random(f"C16-cases-{seed}")
        idx = list(range(n))
        rng.shuffle(idx)
        # the classes whose output is most exposed to process state (pass-through text with inherited
        # attributes, shared snippets, reference families, raising documents) always run alone under every
        # hash seed as well; the rest of the quota is drawn at random
        labels = POOL_LABELS.get((seed, tier), [])
        must = [i for i in idx if i < len(labels) and labels[i] in ("text", "vocab", "family", "raising")][: alone_n * 2 // 3]
        alone = must + [i for i in idx if i not in must][: alone_n - len(must)]
        for hs in ("0", "1", "2", "3", str(rng.randint(4, 2**31))):
            for j in range(0, len(alone), 10):
                cs.append(("alone", hs, alone[j : j + 10]))
        nb = 8 if tier == "quick" else 40
        for b in range(nb):
            size = rng.randint(20, min(150, n))
            batch = [rng.randrange(n) for _ in range(size)]
            # make sure the 'alone' documents appear in batches too, some twice
            batch += rng.sample(alone, min(len(alone), 10))
            if b % 2 == 0:
                # whole reference families and the shared-snippet documents meet in one process
                batch += [i for i in range(n) if i < len(labels) and labels[i] in ("family", "vocab")]
            batch += batch[:3]
            rng.shuffle(batch)
            cs.append(("batch", rng.choice(("0", "1", "2", "3", str(rng.randint(4, 2**31)))), batch))
        return cs

    def setup_worker(self, tier, seed):
        self.pool = doc_pool(seed, tier)

    def _child(self, hashseed, jobs):
        env = dict(os.environ)
        env["PYTHONHASHSEED"] = hashseed
        env["PYTHONPATH"] = bootstrap.VERIF_DIR
        p = subprocess.run([sys.executable, "-B", "-m", "picomon.c16child"], input=json.dumps({"jobs": jobs}), capture_output=True, text=True,
                           timeout=500, env=env, cwd=bootstrap.VERIF_DIR)
        out = []
        for line in p.stdout.splitlines():
            try:
                out.append(json.loads(line))
            except Exception:
                pass
        return out, p.returncode, p.stderr[-300:]

    def run_case(self, case):
        kind, hs, idxs = case
        res = new_result()
        res["log"] = []
        if kind == "alone":
            for i in idxs:
                job = self.pool[i]
                outs, rc, err = self._child(hs, [list(job)])
                res["evals"] += 1
                if not outs:
                    bump(res["counters"], "child_failed")
                    continue
                o = outs[0]
                res["log"].append([key(job), i, hs, "alone", 0, o["digest"] or ("EXC:" + str(o["exc"]))])
            bump(res["features"], "alone_processes", len(idxs))
        else:
            jobs = [list(self.pool[i]) for i in idxs]
            outs, rc, err = self._child(hs, jobs)
            bid = h8(hs, idxs)
            if len(outs) != len(jobs):
                bump(res["counters"], "child_failed")
            for o in outs:
                i = idxs[o["i"]]
                res["evals"] += 1
                res["log"].append([key(self.pool[i]), i, hs, bid, o["i"], o["digest"] or ("EXC:" + str(o["exc"]))])
            bump(res["features"], "batches")
            bump(res["features"], "batch_conversions", len(outs))
        return res

    def postprocess(self, results, tier, seed):
        groups = {}
        for r in results:
            for k, i, hs, bid, pos, outcome in r.get("log", []):
                groups.setdefault(k, []).append((i, hs, bid, pos, outcome))
        viols = []
        pool = doc_pool(seed, tier)
        self._nt = 0
        self._groups = len(groups)
        self._outcomes = sum(len(v) for v in groups.values())
        sample = None
        for k, obs in groups.items():
            outcomes = {o[4] for o in obs}
            seeds = {o[1] for o in obs}
            positions = {(o[2], o[3]) for o in obs}
            if len(obs) >= 5 and len(seeds) >= 3 and len(positions) >= 2:
                self._nt += 1
                if sample is None:
                    sample = {"document_index": obs[0][0], "observations": [list(o[1:]) for o in obs[:6]]}
            if len(outcomes) > 1:
                i = obs[0][0]
                doc, nd, at, du = pool[i]
                by = {}
                for o in obs:
                    by.setdefault(o[4], []).append(o[1:4])
                viols.append(dict(rule="outcome_varies", sig="outcome_varies",
                                  msg=f"document #{i} (ndigits={nd} allow_text={at} drop_unsupported={du}) has {len(outcomes)} different outcomes: "
                                      + "; ".join(f"{oc[:16]}.. under (hashseed, batch, position) {v[:3]}" for oc, v in by.items()) + f"\nSOURCE: {doc[:1500]}",
                                  replay={"kind": "determinism", "doc": doc, "ndigits": nd, "allow_text": at, "drop_unsupported": du,
                                          "configs": [list(v[0]) for v in by.values()]}))
        self._sample = sample
        return viols

    def extra_evidence(self, merged):
        return {"offline_groups": getattr(self, "_groups", 0), "offline_outcomes": getattr(self, "_outcomes", 0)}

    def replay(self, rp):
        job = [rp["doc"], rp.get("ndigits", 3), rp.get("allow_text", False), rp.get("drop_unsupported", False)]
        seen = {}
        for hs in ("0", "1", "2", "3", "12345"):
            outs, rc, err = self._child(hs, [job, job])
            for o in outs:
                seen.setdefault(o["digest"] or o["exc"], []).append(hs)
        if len(seen) > 1:
            return [dict(rule="outcome_varies", msg=f"outcomes by hash seed: { {k[:12]: v for k, v in seen.items()} }")]
        return []
