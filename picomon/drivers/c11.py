"""C11 - transform strings and affine algebra follow the SVG specification."""
import random

from picomon import events
from picomon.driver import Driver, new_result, bump
from picomon.gen import transforms as gt
from picomon.monitors import affinemon


class D(Driver):
    pid = "C11"
    rule = (
        "cases: transform lists drawn from the SVG 1.1 transform BNF (1-5 operations, every legal separator, int/decimal/exponent numbers, "
        "optional arguments present or absent) parsed by the real parse_svg_transform / Affine2D.fromstring; random and structured 6-tuples "
        "(singular, near-singular, translations, reflections, rotations, a=0) through compose_ltr, @, inverse, map_point, tostring, "
        "decompose_scale, decompose_translation; rectangle pairs x 10 alignments x meet/slice/absent (mixed case) through rect_to_rect. "
        "Non-trivial = distinct transform strings with >= 2 operations judged equal to the reference product, distinct factor tuples judged "
        "for the composition law, distinct matrices judged for inverse / round trip / decomposition, distinct rect_to_rect argument triples."
    )
    assumptions = (
        "reference: ref/affine.py (transform-list BNF parser, exact rational products, viewport algorithm) - independent of picosvg",
        "algebraic laws are checked on executed calls with exact rationals over the float inputs; evidence, not a proof of the polynomial identities",
    )
    anchors = (
        ("picosvg.svg_transform", "parse_svg_transform"),
        ("picosvg.svg_transform", "Affine2D.__matmul__"),
        ("picosvg.svg_transform", "Affine2D.translate"),
        ("picosvg.svg_transform", "Affine2D.scale"),
        ("picosvg.svg_transform", "Affine2D.rotate"),
        ("picosvg.svg_transform", "Affine2D.skewx"),
        ("picosvg.svg_transform", "Affine2D.skewy"),
        ("picosvg.svg_transform", "Affine2D.compose_ltr"),
        ("picosvg.svg_transform", "Affine2D.inverse"),
        ("picosvg.svg_transform", "Affine2D.tostring"),
        ("picosvg.svg_transform", "Affine2D.rect_to_rect"),
        ("picosvg.svg_transform", "Affine2D.decompose_scale"),
        ("picosvg.svg_transform", "Affine2D.decompose_translation"),
    )
    deciding_monitors = ("affine.parse", "affine.compose_ltr", "affine.inverse", "affine.rect_to_rect", "affine.tostring",
                         "affine.decompose_scale", "affine.decompose_translation")
    nt_floor = {"quick": 3000, "thorough": 30000}
    time_budget = {"quick": 90, "thorough": 600}

    def cases(self, tier, seed):
        n = 32 if tier == "quick" else 400
        cs = [("mix", seed, k) for k in range(n)]
        from picomon.gen import corpus as _corpus

        _nf = len(_corpus.files())
        for _i in range(0, _nf, 12 if tier == "thorough" else 60):
            cs.append(("pipeline", _i, min(_nf, _i + 12)))
        return cs

    def setup_worker(self, tier, seed):
        affinemon.install()
        from picosvg import svg_transform as ST
        from picosvg.geometric_types import Rect

        self.ST = ST
        self.Rect = Rect

    def run_case(self, case):
        if case[0] == "pipeline":
            from picomon import conv as _conv
            from picomon.gen import corpus as _corpus

            res = new_result()
            affinemon.STATE["seen"] = set()
            for _f in _corpus.files()[case[1]:case[2]]:
                _conv.convert(open(_f).read())
                res["evals"] += 1
                bump(res["features"], "pipeline_documents")
            affinemon.STATE["seen"] = None
            for ev in events.drain():
                res["viol"].append(dict(rule=ev["rule"], sig=ev["sig"], mech=ev.get("mech"), msg=ev["msg"], replay=ev.get("replay")))
            for kk, v in events.take_counts().items():
                bump(res["counters"], "pipeline." + kk, v)
            res["nt"] = events.take_nt()
            return res
        _, seed, k = case
        rng = random.Random(f"C11-{seed}-{k}")
        res = new_result()
        A = self.ST.Affine2D

        def guarded(fn, label):
            res["evals"] += 1
            try:
                return fn()
            except (AssertionError, ZeroDivisionError, ValueError, OverflowError) as e:
                bump(res["counters"], f"rejected.{label}.{type(e).__name__}")
            except Exception as e:
                if events.is_harness_exc(e):
                    raise
                bump(res["counters"], f"exception.{label}.{type(e).__name__}")
                # the inputs are in the documented domain (BNF-valid lists, finite matrices, positive rectangles):
                # refusing is one thing, crashing with a programming error is not an answer
                res["viol"].append(dict(rule="crash", sig=f"crash:{label}:{type(e).__name__}", msg=f"{label} raised {type(e).__name__}: {e}", replay=None))
            return None

        # (1) transform strings
        for i in range(120):
            text, ops = gt.transform_list(rng)
            if i % 2:
                guarded(lambda: A.fromstring(text), "fromstring")
            else:
                guarded(lambda: self.ST.parse_svg_transform(text), "parse")
            bump(res["features"], f"ops_{len(ops)}")
            if res["sample"] is None and len(ops) >= 3:
                res["sample"] = {"transform": text}
        # (2) algebra
        for i in range(80):
            ms = [A(*gt.matrix6(rng)) for _ in range(rng.randint(2, 4))]
            guarded(lambda: A.compose_ltr(ms), "compose_ltr")
            guarded(lambda: ms[0] @ ms[1], "matmul")
            p = (rng.uniform(-100, 100), rng.uniform(-100, 100))
            guarded(lambda: ms[0].map_point(p), "map_point")
            for m in ms[:2]:
                guarded(lambda: m.inverse(), "inverse")
                guarded(lambda: m.tostring(), "tostring")
                guarded(lambda: m.decompose_scale(), "decompose_scale")
                guarded(lambda: m.decompose_translation(), "decompose_translation")
        guarded(lambda: A.identity().inverse(), "inverse")
        guarded(lambda: A(1, 0, 0, 1, 5, 7).tostring(), "tostring")
        # (3) viewport mapping
        for i in range(12):
            src, dst = gt.rect_pair(rng)
            for align in gt.PAR_ALIGNS:
                for mos in (None, "meet", "slice"):
                    par = gt.par_string(rng, align, mos)
                    guarded(lambda: A.rect_to_rect(self.Rect(*src), self.Rect(*dst), par), "rect_to_rect")
            guarded(lambda: A.rect_to_rect(self.Rect(*src), self.Rect(*dst)), "rect_to_rect")
        for ev in events.drain():
            res["viol"].append(dict(rule=ev["rule"], sig=ev["sig"], mech=ev.get("mech"), msg=ev["msg"], replay=ev.get("replay")))
        for kk, v in events.take_counts().items():
            bump(res["counters"], kk, v)
        res["nt"] = events.take_nt()
        return res

    def replay(self, rp):
        A = self.ST.Affine2D
        k = rp.get("kind")
        try:
            if k == "parse":
                self.ST.parse_svg_transform(rp["text"])
            elif k in ("compose_ltr", "matmul"):
                fs = [A(*f) for f in rp["factors"]]
                A.compose_ltr(fs) if k == "compose_ltr" else (fs[1] @ fs[0])
            elif k == "map_point":
                A(*rp["m"]).map_point(tuple(rp["p"]))
            elif k == "inverse":
                A(*rp["m"]).inverse()
            elif k == "tostring":
                A(*rp["m"]).tostring()
            elif k == "rect_to_rect":
                A.rect_to_rect(self.Rect(*rp["src"]), self.Rect(*rp["dst"]), rp["par"])
            elif k in ("decompose_scale", "decompose_translation"):
                getattr(A(*rp["m"]), k)()
        except Exception:
            pass
        return [dict(rule=ev["rule"], msg=ev["msg"]) for ev in events.drain()]
