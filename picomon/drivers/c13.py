"""C13 - boolean path operations compute the set operation under each operand's fill rule."""
import random

from picomon import events
from picomon.driver import Driver, new_result, bump
from picomon.gen import shapes as gs, paths as gp
from picomon.monitors import boolmon


class D(Driver):
    pid = "C13"
    rule = (
        "cases: tuples of 1-4 outlines (stars, nested same/opposite-direction contours, figure-eights, curved blobs, overlapping "
        "rectangles, open polygons) x a fill rule per operand x union/intersection/difference/remove_overlaps, called through "
        "svg_pathops.{union,intersection,difference,remove_overlaps} and through the shape-level union/intersection/difference/"
        "SVGPath.remove_overlaps with fill_rule != clip_rule. Each call is judged at ~120 sample points (uniform + edge-biased) "
        "outside a 0.4% band. Non-trivial = distinct calls with >= 20 retained points, some inside and some outside the expected "
        "set, and >= 1 retained point where an operand's nonzero and evenodd interpretations differ."
    )
    assumptions = ("winding-number oracle over reference-flattened curves (ref/pathgeom.py); PathOpsError is 'rejected', not a violation",)
    anchors = (
        ("picosvg.svg_pathops", "skia_path"),
        ("picosvg.svg_pathops", "_do_pathop"),
        ("picosvg.svg_pathops", "union"),
        ("picosvg.svg_pathops", "intersection"),
        ("picosvg.svg_pathops", "difference"),
        ("picosvg.svg_pathops", "remove_overlaps"),
        ("picosvg.svg_types", "union"),
        ("picosvg.svg_types", "intersection"),
        ("picosvg.svg_types", "difference"),
        ("picosvg.svg_types", "SVGPath.remove_overlaps"),
    )
    deciding_monitors = ("pathop", "pathop.shape_level")
    feature_floors = {"refusing.raised.PathOpsError": 5, "pathop.union.ok": 60, "pathop.intersection.ok": 60, "pathop.difference.ok": 60, "pathop.remove_overlaps.ok": 100,
                      "pathop.SVGPath.remove_overlaps.ok": 60, "pathop._do_pathop.ok": 300}
    nt_floor = {"quick": 300, "thorough": 5000}
    time_budget = {"quick": 120, "thorough": 900}

    def cases(self, tier, seed):
        n = 48 if tier == "quick" else 800
        cs = [("ops", seed, k, 40) for k in range(n)]
        # every pathop call made in-pipeline while converting real and generated clipped / stroked documents
        from picomon.gen import corpus

        nf = len(corpus.files())
        step = 8 if tier == "quick" else 1
        for i in range(0, nf, 10 * step):
            cs.append(("pipeline_corpus", i, min(nf, i + 10), 0))
        for k in range(4 if tier == "quick" else 60):
            cs.append(("pipeline_gen", seed, k, 6))
        for k in range(2 if tier == "quick" else 20):
            cs.append(("refusing", seed, k, 60))
        return cs

    def setup_worker(self, tier, seed):
        boolmon.install()
        from picosvg import svg_pathops as SP, svg_types as T

        self.SP, self.T = SP, T

    def _pipeline(self, case, res):
        from picomon import conv
        from picomon.gen import corpus, docs as gd

        boolmon.STATE["cap"] = None
        docs = []
        if case[0] == "pipeline_corpus":
            docs = [open(f).read() for f in corpus.files()[case[1]:case[2]]]
        else:
            rng = random.Random(f"C13-pipe-{case[1]}-{case[2]}")
            for _ in range(case[3]):
                docs.append(gd.clipped(rng, max_depth=2)[0] if rng.random() < 0.6 else gd.stroke_doc(rng)[0])
        for d in docs:
            boolmon.STATE["n"] = 0
            boolmon.STATE["cap"] = 40  # per document
            st, out = conv.convert(d)
            res["evals"] += 1
            bump(res["features"], "pipeline_documents")
            bump(res["counters"], "pipeline_" + st)
        boolmon.STATE["cap"] = None

    # a legal, finite, closed contour of three cubics looping over itself on which skia's Simplify gives up
    REFUSED = "M38.8,3.081 C54.3,82.591 91.186,61 51,20.03 C37.4,76 16,70 26,52.778 C85.665,26.1 76,70 10.4,9 Z"

    def _refusing(self, case, res):
        """Second clause of the statement: when the engine cannot compute an operation an error is raised, not
        a wrong path returned.  Operands: the contour above, jittered copies of it and random contours of the
        same kind (three self-overlapping cubics), alone and combined with an ordinary operand."""
        from picomon.ref import pathgrammar as G

        _, seed, k, n = case
        rng = random.Random(f"C13-refusing-{seed}-{k}")
        SP, T = self.SP, self.T
        base = G.parse(self.REFUSED)
        for i in range(n):
            kind = rng.random()
            if i == 0 or kind < 0.3:
                o = list(base)
            elif kind < 0.6:
                j = 10.0 ** rng.uniform(-6, -1)
                o = [(c, tuple(v + rng.uniform(-j, j) for v in a)) for c, a in base]
            else:
                p0 = (rng.uniform(5, 95), rng.uniform(5, 95))
                o = [("M", p0)]
                for _ in range(3):
                    o.append(("C", tuple(rng.uniform(5, 95) for _ in range(6))))
                o.append(("Z", ()))
            rule = rng.choice(("nonzero", "evenodd"))
            op = rng.choice(("remove_overlaps", "union", "intersection", "difference", "shape_remove_overlaps"))
            res["evals"] += 1
            try:
                if op == "remove_overlaps":
                    list(SP.remove_overlaps(o, rule))
                elif op == "shape_remove_overlaps":
                    T.SVGPath(d=gp.render(o), fill_rule=rule).remove_overlaps(inplace=rng.random() < 0.5)
                else:
                    other = gs.rect(rng.uniform(0, 40), rng.uniform(0, 40), rng.uniform(30, 60), rng.uniform(30, 60))
                    ops = [o, other] if rng.random() < 0.5 else [other, o]
                    list(getattr(SP, op)(ops, [rule, "nonzero"] if ops[0] is o else ["nonzero", rule]))
                bump(res["features"], "refusing.answered")
            except Exception as e:
                if events.is_harness_exc(e):
                    raise
                bump(res["features"], "refusing.raised." + type(e).__name__)

    def run_case(self, case):
        res = new_result()
        if case[0] == "refusing":
            self._refusing(case, res)
            return self._collect(res)
        if case[0].startswith("pipeline"):
            self._pipeline(case, res)
            return self._collect(res)
        _, seed, k, n = case
        rng = random.Random(f"C13-{seed}-{k}")
        SP, T = self.SP, self.T
        for i in range(n):
            nop = rng.choice((1, 2, 2, 2, 3, 3, 4))
            outs = []
            for j in range(nop):
                if j == 0 or rng.random() < 0.6:
                    outs.append(gs.any_outline(rng))
                else:
                    outs.append(gs.rule_sensitive(rng))
            rules = [rng.choice(("nonzero", "evenodd")) for _ in outs]
            op = rng.choice(("union", "intersection", "difference", "remove_overlaps"))
            level = rng.choice(("pathops", "shape"))
            res["evals"] += 1
            bump(res["features"], f"{level}.{op}.{nop}")
            try:
                if level == "pathops":
                    if op == "remove_overlaps":
                        list(SP.remove_overlaps(outs[0], rules[0]))
                    else:
                        list(getattr(SP, op)(outs, rules))
                else:
                    shapes = []
                    for o, r in zip(outs, rules):
                        other = "evenodd" if r == "nonzero" else "nonzero"
                        d = gp.render(o)
                        if op == "remove_overlaps":
                            shapes.append(T.SVGPath(d=d, fill_rule=r, clip_rule=other))
                        elif op == "intersection":
                            shapes.append(T.SVGPath(d=d, fill_rule=other if rng.random() < 0.5 else r, clip_rule=other))
                        else:
                            shapes.append(T.SVGPath(d=d, fill_rule=other, clip_rule=r))
                    if op == "remove_overlaps":
                        shapes[0].remove_overlaps(inplace=rng.random() < 0.5)
                    elif op == "intersection":
                        if rng.random() < 0.6:
                            list(T.intersection(shapes, fill_rules=rules))
                        else:
                            list(T.intersection(shapes))
                    else:
                        list(getattr(T, op)(shapes))
            except Exception as e:
                if events.is_harness_exc(e):
                    raise
                bump(res["counters"], "exception:" + type(e).__name__)
            if res["sample"] is None and nop >= 2:
                res["sample"] = {"op": op, "level": level, "rules": rules, "operands": [gp.render(o) for o in outs]}
        return self._collect(res)

    def _collect(self, res):
        for ev in events.drain():
            res["viol"].append(dict(rule=ev["rule"], sig=ev["sig"], mech=ev.get("mech"), msg=ev["msg"], replay=ev.get("replay")))
        for kk, v in events.take_counts().items():
            bump(res["counters"], kk, v)
        res["nt"] = events.take_nt()
        return res

    def replay(self, rp):
        SP = self.SP
        if rp and rp.get("kind") == "pathop":
            ops = [[(c, tuple(a)) for c, a in o] for o in rp["operands"]]
            name = rp["op"].lower()
            try:
                if name == "simplify":
                    list(SP.remove_overlaps(ops[0], rp["rules"][0]))
                else:
                    list(getattr(SP, name)(ops, rp["rules"]))
            except Exception:
                pass
        return [dict(rule=ev["rule"], msg=ev["msg"]) for ev in events.drain()]
