"""C10 - path data parses per the SVG grammar or is rejected; printing round-trips."""
import itertools
import math
import random
import struct

from picomon import attach, events
from picomon.driver import Driver, new_result, bump, h8
from picomon.gen import paths as gp
from picomon.monitors import parsemon
from picomon.ref import pathgrammar

ALPHA = "Mlza01.-e ,"


class D(Driver):
    pid = "C10"
    rule = (
        "cases: (a) every string over the alphabet 'Mlza01.-e ,' up to length 6 (quick) / 7 (thorough); "
        "(b) every command x number-form x separator combination for arity<=2 commands and sampled ones for the rest; "
        "(c) grammar-derived random strings of 1-30 commands with random valid lexical forms; (d) mutations of (c); "
        "(e) print->parse round trips over extreme floats; (f) mode history: every string of (c)/(d) and one in eight of (a)/(b) is parsed again "
        "in the other mode (exploded / not) and then in the first mode again, each call judged against the grammar.  Non-trivial = a distinct string the reference grammar accepts "
        "containing >= 2 number tokens that the real parser was judged on (enumerations are distinct by construction, "
        "random strings are de-duplicated by hash), plus distinct round-tripped command sequences."
    )
    assumptions = (
        "reference = SVG 1.1 path BNF with the optional comma-wsp before arc flags (2nd edition erratum), greedy tokenisation",
        "ValueError on a grammar-valid string is allowed by the statement and only counted (rejected_valid)",
    )
    anchors = (
        ("picosvg.svg_path_iter", "_parse_args"),
        ("picosvg.svg_path_iter", "_explode_cmd"),
        ("picosvg.svg_path_iter", "parse_svg_path"),
        ("picosvg.svg_meta", "check_cmd"),
        ("picosvg.svg_meta", "path_segment"),
        ("picosvg.svg_meta", "ntos"),
        ("picosvg.svg_types", "SVGPath.update_path"),
        ("picosvg.svg_types", "SVGPath.from_commands"),
    )
    deciding_monitors = ("parse_svg_path",)
    feature_floors = {"ok": 5000, "roundtrip_ok": 600, "mode_history_strings_with_implicit_repeats": 50}
    nt_floor = {"quick": 500, "thorough": 2000}
    time_budget = {"quick": 120, "thorough": 900}

    def cases(self, tier, seed):
        maxlen = 6 if tier == "quick" else 7
        cs = [("enum_short", maxlen)]
        for a in ALPHA:
            for b in ALPHA:
                cs.append(("enum", a + b, maxlen))
        for c in gp.ALL20:
            cs.append(("tokens", c, seed))
        nrand = 16 if tier == "quick" else 160
        for k in range(nrand):
            cs.append(("random", seed, k, 400))
        for k in range(8 if tier == "quick" else 64):
            cs.append(("print", seed, k, 300))
        from picomon.gen import corpus as _corpus

        _nf = len(_corpus.files())
        for _i in range(0, _nf, 12 if tier == "thorough" else 60):
            cs.append(("pipeline", _i, min(_nf, _i + 12)))
        return cs

    def setup_worker(self, tier, seed):
        parsemon.install()
        from picosvg import svg_path_iter
        from picosvg.svg_types import SVGPath

        self.parse = lambda s, e: svg_path_iter.parse_svg_path(s, exploded=e)
        self.SVGPath = SVGPath

    # ------------------------------------------------------------------
    def _judge_string(self, s, res, exploded=True, hash_nt=False):
        parsemon.STATE["last"] = None
        try:
            list(self.parse(s, exploded))
        except ValueError:
            pass
        except Exception:
            pass  # recorded by the monitor as foreign_exception
        last = parsemon.STATE["last"]
        res["evals"] += 1
        # mode history: the same string again in the other mode, then in the first mode again; every call
        # is judged by the monitor against the grammar (a tokenizer that remembers what an earlier call
        # did with the string answers the later call wrongly).  Every string outside the big
        # enumerations, one in eight inside them.
        self._hk = getattr(self, "_hk", 0) + 1
        if hash_nt or self._hk % 8 == 0:
            for e2 in (not exploded, exploded):
                try:
                    list(self.parse(s, e2))
                except Exception:
                    pass
            bump(res["features"], "mode_history_strings")
            if last is not None and last[0] == "ok" and last[1].get("nrepeat"):
                bump(res["features"], "mode_history_strings_with_implicit_repeats")
        if last is None:
            bump(res["counters"], "monitor_missed")
            return
        verdict, info = last
        bump(res["counters"], verdict)
        if verdict == "ok" and info["nnum"] >= 2:
            if hash_nt:
                res["nt"].append(h8(s))
            else:
                res["_ntc"] += 1
        if res["sample"] is None and verdict == "ok" and info["nnum"] >= 3:
            res["sample"] = {"string": s, "verdict": verdict}

    def _finish(self, res, hash_nt):
        for ev in events.drain():
            res["viol"].append(
                dict(rule=ev["rule"], sig=ev["sig"], mech=ev.get("mech"), msg=ev["msg"],
                     replay={"kind": "string", "text": ev.get("text"), "exploded": ev.get("exploded", True)})
            )
        events.take_counts()
        if not hash_nt:
            res["nt"] = res.pop("_ntc")
        else:
            res.pop("_ntc", None)
        return res

    def run_case(self, case):
        kind = case[0]
        if case[0] == "pipeline":
            # every call of the monitored functions made while converting real documents
            from picomon import conv as _conv
            from picomon.gen import corpus as _corpus

            res = new_result()
            res["_ntc"] = 0
            parsemon.SEEN = set()
            for _f in _corpus.files()[case[1]:case[2]]:
                _st, _ = _conv.convert(open(_f).read())
                res["evals"] += 1
                bump(res["features"], "pipeline_documents")
            parsemon.SEEN = None
            for k_, v_ in events.take_counts().items():
                bump(res["counters"], "pipeline." + k_, v_)
            return self._finish(res, True)
        res = new_result()
        res["_ntc"] = 0
        if kind == "enum_short":
            for n in range(0, 2):
                for t in itertools.product(ALPHA, repeat=n):
                    self._judge_string("".join(t), res)
            return self._finish(res, False)
        if kind == "enum":
            _, prefix, maxlen = case
            for n in range(0, maxlen - 1):
                for t in itertools.product(ALPHA, repeat=n):
                    s = prefix + "".join(t)
                    self._judge_string(s, res, exploded=(n % 2 == 0))
            bump(res["features"], "enum_prefixes")
            return self._finish(res, False)
        if kind == "tokens":
            _, c, seed = case
            rng = random.Random(f"C10-tok-{seed}-{c}")
            forms = gp.NUMBER_FORMS_VALID + gp.NUMBER_FORMS_JUNK
            ar = gp.ARITY[c.lower()]
            lead = "" if c in "mM" else "M0 0"
            if ar == 0:
                for pre in ("M1 2", "M1 2 ", "M1,2\n"):
                    for post in ("", " ", "L1 1", " l3 4", "1 2"):
                        self._judge_string(pre + c + post, res)
            elif ar <= 2:
                for combo in itertools.product(forms, repeat=ar):
                    for sep in gp.SEPARATORS:
                        for gap in ("", " "):
                            self._judge_string(lead + c + gap + sep.join(combo), res)
                # implicit repeats with every form in the second set
                for combo in itertools.product(gp.NUMBER_FORMS_VALID[:10], repeat=ar):
                    for sep in (" ", ",", ""):
                        s = lead + c + sep.join(["3"] * ar) + sep + sep.join(combo)
                        self._judge_string(s, res)
            else:
                for _ in range(6000):
                    toks = []
                    for k in range(ar * rng.choice((1, 1, 2))):
                        if c in "aA" and (k % 7) in (3, 4):
                            toks.append(rng.choice(("0", "1", "0", "1", "2", "01")))
                        else:
                            toks.append(rng.choice(forms if rng.random() < 0.9 else gp.NUMBER_FORMS_JUNK))
                    s = lead + c
                    for k, tk in enumerate(toks):
                        s += (rng.choice(gp.SEPARATORS) if k else rng.choice(("", " "))) + tk
                    self._judge_string(s, res, exploded=rng.random() < 0.7, hash_nt=False)
            bump(res["features"], "token_commands")
            return self._finish(res, False)
        if kind == "random":
            _, seed, k, n = case
            rng = random.Random(f"C10-rand-{seed}-{k}")
            for _ in range(n):
                cmds = gp.random_cmds(rng, rng.randint(0, 30))
                s = gp.render(cmds, rng)
                self._judge_string(s, res, exploded=rng.random() < 0.7, hash_nt=True)
                bump(res["features"], "grammar_derived")
                m = s
                for _ in range(rng.randint(1, 3)):
                    m = gp.mutate(m, rng)
                self._judge_string(m, res, exploded=rng.random() < 0.7, hash_nt=True)
                bump(res["features"], "mutated")
            return self._finish(res, True)
        if kind == "print":
            _, seed, k, n = case
            rng = random.Random(f"C10-print-{seed}-{k}")
            for _ in range(n):
                self._roundtrip(rng, res)
            return self._finish(res, True)
        raise ValueError(kind)

    # ------------------------------------------------------------------ printing
    SPECIAL = [0.0, -0.0, 1.0, -1.0, 5e-324, 2.2250738585072014e-308, 1e-7, 1.5e-7, 1e-5, 1e16, 1e22, 1.5e300, 1.7976931348623157e308,
               -1.7976931348623157e308, 123456789.125, 0.1, 1 / 3, 1e21, 1e-10, 1.5e-10, 2.25e20, 1e100, 3.0e-20, 1.2e-20, 7e10, 2.5e-30]

    def _rand_float(self, rng):
        k = rng.random()
        if k < 0.3:
            return rng.choice(self.SPECIAL)
        if k < 0.5:
            return float(rng.randint(-1000, 1000))
        if k < 0.7:
            return rng.uniform(-1000, 1000)
        if k < 0.85:
            m = rng.choice((1.0, 1.5, 2.25, 1.25, 3.0, 7.0, 1.1, 9.99))
            return m * 10.0 ** rng.randint(-40, 40) * rng.choice((1, -1))
        while True:
            v = struct.unpack("<d", struct.pack("<Q", rng.getrandbits(64)))[0]
            if math.isfinite(v):
                return v

    def _roundtrip(self, rng, res):
        n = rng.randint(1, 6)
        cmds = []
        for i in range(n):
            c = rng.choice("Mm") if i == 0 else rng.choice(gp.ALL20)
            ar = gp.ARITY[c.lower()]
            reps = 1 if ar == 0 else rng.choice((1, 1, 1, 2, 3))
            args = []
            for r in range(reps):
                for k in range(ar):
                    if c in "aA" and k in (3, 4):
                        args.append(rng.choice((0, 1, 0.0, 1.0)))
                    elif c in "aA" and k in (0, 1):
                        args.append(abs(self._rand_float(rng)))
                    else:
                        args.append(self._rand_float(rng))
            cmds.append((c, tuple(args)))
        # reference exploded form
        want = []
        for c, args in cmds:
            ar = gp.ARITY[c.lower()]
            if ar == 0:
                want.append((c, ()))
                continue
            cur = c
            for i in range(0, len(args), ar):
                want.append((cur, tuple(args[i : i + ar])))
                cur = {"M": "L", "m": "l"}.get(cur, cur)
        res["evals"] += 1
        attach.count("print_roundtrip")
        try:
            path = self.SVGPath.from_commands(iter(cmds))
            got = list(path)
            d = path.d
        except Exception as e:
            if events.is_harness_exc(e):
                raise
            res["viol"].append(dict(rule="roundtrip_exception", sig=f"roundtrip_exception:{type(e).__name__}",
                                    msg=f"from_commands/iter raised {type(e).__name__}: {e} for {cmds!r}",
                                    replay={"kind": "cmds", "cmds": cmds}))
            return
        ok = len(got) == len(want) and all(
            gc == wc and len(ga) == len(wa) and all(x == y for x, y in zip(ga, wa)) for (gc, ga), (wc, wa) in zip(got, want)
        )
        bump(res["counters"], "roundtrip_ok" if ok else "roundtrip_bad")
        if ok:
            res["nt"].append(h8("rt", cmds))
            if res["sample"] is None:
                res["sample"] = {"roundtrip_cmds": cmds, "d": d}
        else:
            res["viol"].append(dict(rule="roundtrip_mismatch", sig="roundtrip_mismatch",
                                    msg=f"commands {cmds!r} printed as {d!r} parse back as {got!r}",
                                    replay={"kind": "cmds", "cmds": cmds}))

    # ------------------------------------------------------------------
    def replay(self, rp):
        res = new_result()
        res["_ntc"] = 0
        if rp.get("kind") == "string":
            self._judge_string(rp["text"], res, exploded=rp.get("exploded", True), hash_nt=True)  # with the mode history
        else:
            class R:  # feed the recorded commands through the same round-trip check
                pass
            cmds = [(c, tuple(a)) for c, a in rp["cmds"]]
            try:
                path = self.SVGPath.from_commands(iter(cmds))
                got = [(c, tuple(a)) for c, a in path]
                want = []
                for c, args in cmds:
                    ar = gp.ARITY[c.lower()]
                    if ar == 0:
                        want.append((c, ()))
                        continue
                    cur = c
                    for i in range(0, len(args), ar):
                        want.append((cur, tuple(args[i : i + ar])))
                        cur = {"M": "L", "m": "l"}.get(cur, cur)
                if got != want:
                    res["viol"].append(dict(rule="roundtrip_mismatch", msg=f"{cmds!r} -> {path.d!r} -> {got!r}"))
            except Exception as e:
                res["viol"].append(dict(rule="roundtrip_exception", msg=repr(e)))
        self._finish(res, True)
        return res["viol"]
