"""C02 - flattening groups, transforms, use and nested svg preserves the rendering."""
from picomon.drivers.renderbase import RenderDriver
from picomon.gen import docs as gd


class D(RenderDriver):
    pid = "C02"
    mode = "stack"
    rule = (
        "cases: structural documents (seven basic shapes and paths incl. relative data and arcs, groups nested <= 3-4 deep, transform "
        "lists of all six operations on shapes/groups/use, use with x/y/transform of shapes and groups, use of groups containing use, "
        "nested svg with x/y/width/height/viewBox/preserveAspectRatio/overflow, display:none) with opaque pairwise-distinct fills, "
        "converted by the real topicosvg(); source and output are evaluated by the reference renderer at ~250 points (uniform + "
        "edge-biased at 1.5-4 eps from source edges) and the ordered paint stacks must be equal outside the 0.4% band. Non-trivial = "
        "distinct documents with >= 30 retained points, >= 5 non-empty stacks and >= 2 of {group transform, shape transform, use, nested svg}."
    )
    assumptions = ("reference renderer ref/render.py (semantic decisions in DESIGN.md 2.3.1); conversions that raise are counted, not judged (C17)",)
    anchors = (
        ("picosvg.svg", "_element_transform"),
        ("picosvg.svg", "SVG._traverse"),
        ("picosvg.svg", "SVG._simplify"),
        ("picosvg.svg", "SVG._resolve_use"),
        ("picosvg.svg", "SVG._unnest_svg"),
        ("picosvg.svg", "SVG.resolve_nested_svgs"),
        ("picosvg.svg", "SVG._swap_elements"),
        ("picosvg.svg_types", "SVGShape.apply_transform"),
        ("picosvg.svg_pathops", "transform"),
        ("picosvg.svg_transform", "Affine2D.compose_ltr"),
        ("picosvg.svg_transform", "Affine2D.rect_to_rect"),
    )
    nt_floor = {"quick": 150, "thorough": 4000}
    feature_floors = {"judged.nested_in_nested": 50, "judged.nested_svg": 200, "judged.nested_viewbox": 150, "judged.use": 80, "judged.use_of_group": 12, "judged.display_none": 40, "judged.group_transform": 150, "judged.extreme_scale": 8, "judged.tf_matrix": 100, "judged.tf_rotate": 200, "judged.tf_scale": 200, "judged.tf_translate": 200, "use": 50, "nested_svg": 30, "group_transform": 50, "use_of_group": 5, "nested_viewbox": 10, "display_none": 5}

    def gen_doc(self, rng):
        text, f, root = gd.structural(rng, max_depth=rng.choice((2, 3, 3, 4)))
        return text, f, None

    def is_nontrivial(self, st, feats, meta):
        n = sum(1 for k in ("group_transform", "transform", "use", "nested_svg") if feats.get(k))
        return st["kept"] >= 30 and st["nonempty"] >= 5 and n >= 2
