"""C15 - an SVG object always equals its serialisation, whatever the operation history."""
import random
import xml.etree.ElementTree as ET

from picomon import attach, events
from picomon.driver import Driver, new_result, bump, h8
from picomon.gen import histories as gh, corpus
from picomon.ref import xmlcanon, cascade as CS


class StepFailed(Exception):
    def __init__(self, index, exc):
        self.index, self.exc = index, exc


class D(Driver):
    pid = "C15"
    rule = (
        "cases: histories over 21 public SVG operations x {in-place, copy} + 9 read-only / flushing queries (51 steps): every history of "
        "length <= 2 on six documents chosen to make each operation non-vacuous (quick); every history of length 3 on two documents and "
        "random histories of length 4-8 on the tests/ corpus (thorough). For each history the real run applies the steps to live objects "
        "without any observation in between; the shadow run serialises and re-parses before every step. Oracle: same final canonical XML "
        "(or the same step raises the same exception type); a copy-mode step leaves the receiver's serialisation unchanged (decided on a "
        "freshly re-executed run); in-place steps return the receiver. Non-trivial = distinct (document, history) whose final document "
        "differs from the initial one and in which a cache-populating step precedes a step of another kind."
    )
    assumptions = ("the executable model is 'SVG.fromstring(svg.tostring()) between every two steps'; canonical XML = infoset equality (ref/xmlcanon.canon)",)
    anchors = (
        ("picosvg.svg", "SVG._update_etree"),
        ("picosvg.svg", "SVG._clone"),
        ("picosvg.svg", "SVG._elements"),
        ("picosvg.svg", "SVG._set_element"),
        ("picosvg.svg", "SVG._inherited_attrib"),
        ("picosvg.svg", "SVG.resolve_nested_svgs"),
        ("picosvg.svg", "SVG.apply_style_attributes"),
        ("picosvg.svg", "SVG.remove_processing_instructions"),
        ("picosvg.svg", "SVG.set_attributes"),
        ("picosvg.svg", "SVG.append_to"),
        # every public operation the histories are made of
        ("picosvg.svg", "SVG.absolute"),
        ("picosvg.svg", "SVG.shapes_to_paths"),
        ("picosvg.svg", "SVG.expand_shorthand"),
        ("picosvg.svg", "SVG.resolve_use"),
        ("picosvg.svg", "SVG.simplify"),
        ("picosvg.svg", "SVG.clip_to_viewbox"),
        ("picosvg.svg", "SVG.evenodd_to_nonzero_winding"),
        ("picosvg.svg", "SVG.round_floats"),
        ("picosvg.svg", "SVG.remove_empty_subpaths"),
        ("picosvg.svg", "SVG.remove_unpainted_shapes"),
        ("picosvg.svg", "SVG.remove_nonsvg_content"),
        ("picosvg.svg", "SVG.remove_anonymous_symbols"),
        ("picosvg.svg", "SVG.remove_title_meta_desc"),
        ("picosvg.svg", "SVG.remove_attributes"),
        ("picosvg.svg", "SVG.normalize_opacity"),
        ("picosvg.svg", "SVG.topicosvg"),
        ("picosvg.svg", "SVG.shapes"),
        ("picosvg.svg", "SVG.bounding_box"),
        ("picosvg.svg", "SVG.checkpicosvg"),
        ("picosvg.svg", "SVG.toetree"),
    )
    nt_floor = {"quick": 1500, "thorough": 15000}
    time_budget = {"quick": 240, "thorough": 1800}
    case_timeout = 900

    def cases(self, tier, seed):
        alpha = gh.alphabet()
        cs = []
        for di in range(len(gh.DOCS)):
            cs.append(("len1", di))
            for a in range(0, len(alpha), 4):
                cs.append(("len2", di, a, min(len(alpha), a + 4)))
        if tier == "thorough":
            for di in (0, 1):
                for a in range(len(alpha)):
                    for b in range(0, len(alpha), 17):
                        cs.append(("len3", di, a, b, min(len(alpha), b + 17)))
            for k in range(200):
                cs.append(("random", seed, k, 25))
        else:
            for k in range(12):
                cs.append(("random", seed, k, 12))
        return cs

    def setup_worker(self, tier, seed):
        from picosvg.svg import SVG

        self.SVG = SVG
        self.ops, self.queries = gh._ops()

    # ------------------------------------------------------------ execution
    def apply(self, svg, step):
        """-> (next current object, result, in-place identity ok?)"""
        name, mode = step
        if mode == "query":
            ans = self.queries[name](svg)
            self._answers.append((name, self._norm_answer(name, ans)))
            return svg, None, True
        r = self.ops[name](svg, mode == "inplace")
        if mode == "inplace":
            return svg, r, (r is svg)
        return r, r, True

    _answers = []

    @staticmethod
    def _norm_answer(name, ans):
        """Answers of read-only queries that do not merely repeat the serialisation: what the object says
        about itself must be what its serialisation says."""
        try:
            if name == "checkpicosvg":
                return tuple(ans)
            if name in ("view_box", "bounding_box"):
                return None if ans is None else tuple(round(float(v), 6) for v in ans)
            if name == "tolerance":
                return round(float(ans), 9)
            if name == "shapes":
                return len(ans)
            # (xpath is a raw query on the element tree and does not see pending shape edits - observation O5,
            #  not claimed: the statement names shapes, bounding_box and view_box)
        except Exception:
            return "unnormalisable"
        return None

    def run_real(self, doc, steps, want_receiver_of=None):
        self._answers = []
        cur = self.SVG.fromstring(doc)
        ident_fail = None
        receiver = None
        for i, st in enumerate(steps):
            try:
                prev = cur
                cur, r, ok = self.apply(cur, st)
                if want_receiver_of == i:
                    receiver = prev
                if not ok and ident_fail is None:
                    ident_fail = (i, st, type(r).__name__)
                if cur is None:
                    raise StepFailed(i, TypeError("operation returned None"))
            except StepFailed:
                raise
            except Exception as e:
                if events.is_harness_exc(e):
                    raise
                raise StepFailed(i, e)
        if want_receiver_of is not None:
            return receiver.tostring(), ident_fail
        return cur.tostring(), ident_fail

    def run_shadow(self, doc, steps):
        self._answers = []
        text = doc
        for i, st in enumerate(steps):
            try:
                obj = self.SVG.fromstring(text)
                # a copying step is modelled by the in-place form on the freshly parsed object:
                # "copying operations ... return what the in-place form produces on a copy"
                cur, r, ok = self.apply(obj, (st[0], "inplace") if st[1] == "copy" else st)
                if cur is None:
                    cur = obj
                text = cur.tostring()
            except Exception as e:
                if events.is_harness_exc(e):
                    raise
                raise StepFailed(i, e)
        return text

    # ------------------------------------------------------------ judgement
    def judge(self, res, doc, steps, di):
        res["evals"] += 1
        attach.count("history")
        rp = {"kind": "history", "doc": doc, "steps": [list(s) for s in steps]}
        hist = " -> ".join(f"{n}[{m}]" for n, m in steps)
        real = shadow = None
        try:
            real, ident = self.run_real(doc, steps)
        except StepFailed as f:
            real = f
            ident = None
        real_answers = list(self._answers)
        try:
            shadow = self.run_shadow(doc, steps)
        except StepFailed as f:
            shadow = f
        shadow_answers = list(self._answers)
        if ident is not None:
            i, st, tn = ident
            res["viol"].append(dict(rule="inplace_returns_receiver", sig=f"inplace_returns_receiver:{st[0]}",
                                    msg=f"[doc {di}] {hist}: in-place step {i} ({st[0]}) returned {tn}, not the receiver", replay=rp))
            return
        if isinstance(real, StepFailed) or isinstance(shadow, StepFailed):
            same = (isinstance(real, StepFailed) and isinstance(shadow, StepFailed) and real.index == shadow.index
                    and type(real.exc).__name__ == type(shadow.exc).__name__)
            if same:
                bump(res["counters"], "both_raise")
                return
            def d(x):
                return f"raises {type(x.exc).__name__} at step {x.index}: {str(x.exc)[:80]}" if isinstance(x, StepFailed) else "completes"
            mech = self.classify(doc, steps, None, None)
            res["viol"].append(dict(rule="exception_divergence", sig=f"exception_divergence:{self._first_kind(steps, real, shadow)}", mech=mech,
                                    msg=f"[doc {di}] {hist}: live object {d(real)}; with re-parsing between steps it {d(shadow)}", replay=rp))
            return
        try:
            ca, cb = xmlcanon.canon_text(real), xmlcanon.canon_text(shadow)
        except Exception as e:
            res["viol"].append(dict(rule="unparsable", sig="unparsable", msg=f"[doc {di}] {hist}: {e!r}", replay=rp))
            return
        if ca != cb:
            # attribute the divergence to the shortest prefix of the history that already diverges
            psteps, preal, pshadow = steps, real, shadow
            for k in range(1, len(steps)):
                try:
                    r2, _ = self.run_real(doc, steps[:k])
                    s2 = self.run_shadow(doc, steps[:k])
                except StepFailed:
                    break
                if xmlcanon.canon_text(r2) != xmlcanon.canon_text(s2):
                    psteps, preal, pshadow = steps[:k], r2, s2
                    break
            mech = self.classify(doc, psteps, preal, pshadow)
            phist = " -> ".join(f"{n}[{m}]" for n, m in psteps)
            rp = {"kind": "history", "doc": doc, "steps": [list(s) for s in psteps]}
            res["viol"].append(dict(rule="state_diverges", sig="state_diverges:" + self._sig(psteps, preal, pshadow) + (f":{mech}" if mech else ""), mech=mech,
                                    msg=f"[doc {di}] {phist}" + (f"   (first diverging prefix of: {hist})" if psteps != steps else "") +
                                        f":\n LIVE:   {preal[:900]}\n SHADOW: {pshadow[:900]}", replay=rp))
            return
        # the answers of the read-only queries along the way (the documents agree, so must they)
        if real_answers != shadow_answers:
            k = next((i for i, (a, b) in enumerate(zip(real_answers, shadow_answers)) if a != b), min(len(real_answers), len(shadow_answers)))
            ra = real_answers[k] if k < len(real_answers) else None
            sa = shadow_answers[k] if k < len(shadow_answers) else None
            res["viol"].append(dict(rule="query_answer_diverges", sig=f"query_answer_diverges:{(ra or sa or ('?',))[0]}",
                                    msg=f"[doc {di}] {hist}: query #{k} answers {ra!r} on the live object but {sa!r} on the re-parsed document", replay=rp))
            return
        # clause 2: copy-mode steps leave the receiver unchanged (fresh executions, no mid-history observation)
        for i, st in enumerate(steps):
            if st[1] != "copy":
                continue
            try:
                before, _ = self.run_real(doc, steps[:i])
                recv, _ = self.run_real(doc, steps[: i + 1], want_receiver_of=i)
            except StepFailed:
                continue
            if xmlcanon.canon_text(before) != xmlcanon.canon_text(recv):
                res["viol"].append(dict(rule="copy_changes_receiver", sig=f"copy_changes_receiver:{st[0]}",
                                        msg=f"[doc {di}] {hist}: copy-mode step {i} ({st[0]}) changed its receiver\n BEFORE: {before[:700]}\n AFTER:  {recv[:700]}", replay=rp))
                return
        bump(res["counters"], "histories_ok")
        changed = xmlcanon.canon_text(real) != xmlcanon.canon_text(self.SVG.fromstring(doc).tostring())
        cache_first = any(steps[i][0] in gh.CACHE_POPULATING and any(s[0] not in gh.CACHE_POPULATING for s in steps[i + 1:]) for i in range(len(steps)))
        if changed and (cache_first or len(steps) == 1):
            res["nt"].append(h8(di if isinstance(di, int) else doc, steps))
        if res["sample"] is None and len(steps) >= 2 and changed and cache_first:
            res["sample"] = {"document": di, "history": hist}

    def _first_kind(self, steps, real, shadow):
        idx = min(x.index for x in (real, shadow) if isinstance(x, StepFailed))
        return f"{steps[idx][0]}[{steps[idx][1]}]"

    def _sig(self, steps, real, shadow):
        try:
            ra, rb = ET.fromstring(real), ET.fromstring(shadow)
            diffs = set()
            for x, y in zip(ra.iter(), rb.iter()):
                if x.tag != y.tag:
                    diffs.add("structure")
                    break
                for k in set(x.attrib) ^ set(y.attrib):
                    diffs.add(x.tag.split("}")[-1] + "@" + k)
                for k in set(x.attrib) & set(y.attrib):
                    if x.attrib[k] != y.attrib[k]:
                        diffs.add(x.tag.split("}")[-1] + "@" + k + "~")
            if len(list(ra.iter())) != len(list(rb.iter())):
                diffs.add("structure")
            return ",".join(sorted(diffs))[:80] + "|" + steps[-1][0]
        except Exception:
            return "?"

    def classify(self, doc, steps, real, shadow):
        """Known mechanism (S15): after a cache-populating step, apply_style_attributes writes
        explicit presentation attributes that merely repeat the inherited value - same rendering,
        different XML.  Recognised iff the trees have the same structure and the live document only
        has *extra* attributes on shapes whose value equals what the element inherits anyway."""
        if real is None or shadow is None:
            return None
        names = [s[0] for s in steps]
        if "apply_style_attributes" not in names and "topicosvg" not in names:
            return None
        k = min(i for i, n in enumerate(names) if n in ("apply_style_attributes", "topicosvg"))
        if not any(n in gh.CACHE_POPULATING for n in names[:k]):
            return None
        try:
            ra, rb = ET.fromstring(real), ET.fromstring(shadow)
            la, lb = list(ra.iter()), list(rb.iter())
            if len(la) != len(lb):
                return None
            parent = {c: p for p in rb.iter() for c in p}

            def inherited(el, prop):
                p = parent.get(el)
                while p is not None:
                    own = CS.own_props(p)
                    if prop in own:
                        return own[prop]
                    p = parent.get(p)
                return CS.INITIAL.get(prop)

            # declarations written in some element's style attribute of the initial document
            style_decls = set()
            for e0 in ET.fromstring(doc).iter():
                for decl in (e0.get("style") or "").split(";"):
                    if ":" in decl:
                        k0, v0 = decl.split(":", 1)
                        style_decls.add((k0.strip(), v0.strip()))
            extra = 0
            for x, y in zip(la, lb):
                if x.tag != y.tag or (x.text or "").strip() != (y.text or "").strip():
                    return None
                for key in set(x.attrib) | set(y.attrib):
                    if x.attrib.get(key) == y.attrib.get(key):
                        continue
                    if key in y.attrib:
                        return None  # changed or missing in the live document: not this mechanism
                    if (key, x.attrib[key]) in style_decls and x.tag.split("}")[-1] in ("path", "rect", "circle", "ellipse", "line", "polygon", "polyline"):
                        # a cached shape picked up a declaration from an ancestor's not yet parsed style string
                        extra += 1
                        continue
                    if key not in CS.INHERITED:
                        return None
                    inh = inherited(y, key)
                    v = x.attrib[key]
                    try:
                        same = float(v) == float(inh)
                    except Exception:
                        same = v == inh
                    if not same:
                        return None
                    extra += 1
            return "explicit-inherited-after-cached-style" if extra else None
        except Exception:
            return None

    # ------------------------------------------------------------ cases
    def run_case(self, case):
        kind = case[0]
        res = new_result()
        alpha = gh.alphabet()
        if kind == "len1":
            di = case[1]
            for st in alpha:
                self.judge(res, gh.DOCS[di], (st,), di)
            bump(res["features"], "len1", len(alpha))
        elif kind == "len2":
            _, di, a, b = case
            for s1 in alpha[a:b]:
                for s2 in alpha:
                    self.judge(res, gh.DOCS[di], (s1, s2), di)
            bump(res["features"], "len2", (b - a) * len(alpha))
        elif kind == "len3":
            _, di, a, b, c = case
            for s2 in alpha[b:c]:
                for s3 in alpha:
                    self.judge(res, gh.DOCS[di], (alpha[a], s2, s3), di)
            bump(res["features"], "len3", (c - b) * len(alpha))
        else:
            _, seed, k, n = case
            rng = random.Random(f"C15-{seed}-{k}")
            files = corpus.files()
            for _ in range(n):
                if rng.random() < 0.6:
                    path = rng.choice(files)
                    doc = open(path).read()
                    di = "corpus:" + path.split("/")[-1]
                else:
                    di = rng.randrange(len(gh.DOCS))
                    doc = gh.DOCS[di]
                self.judge(res, doc, gh.random_history(rng), di)
            bump(res["features"], "random_histories", n)
        for ev in events.drain():
            pass
        return res

    def replay(self, rp):
        res = new_result()
        self.judge(res, rp["doc"], tuple(tuple(s) for s in rp["steps"]), "replay")
        return res["viol"]
