"""C08 - converted documents have no duplicate, dangling or orphaned references."""
import random

from picomon import conv, events
from picomon.driver import Driver, new_result, bump, h8
from picomon.gen import docs as gd
from picomon.monitors import stagemon
from picomon.ref import xmlcanon


def sharing_doc(rng):
    """Ids reused by several use / fill / clip-path references, id'd shapes instanced and stroked,
    gradients shared between transformed, untransformed and invisible shapes, ids that collide
    with the names picosvg generates (<id>_<n>, nested-svg-viewport-<n>)."""
    # a root that offers no size at all (no viewBox, not both width and height) still converts as long as
    # nothing needs the viewport: bounding-box gradients only, no nested svg
    sizeless = rng.random() < 0.08
    g = gd.Gen(rng, gradients=True, clips=rng.random() < 0.5, strokes=True, nested_svg=(not sizeless) and rng.random() < 0.4, unique_fills=False, paint=False)
    r = rng
    base = r.choice(("a", "g", "gr", "x", "grad"))
    # any subset of names that look like the ones the conversion generates (<id>_<n>), incl. gaps
    cand = [f"{base}_0", f"{base}_1", f"{base}_2", f"{base}_0_0", f"{base}_1_0"]
    gids = [base] + r.sample(cand, r.randint(0, 3))
    r.shuffle(gids)
    for gid in gids:
        g.defs.append(gd.gradient_node(g, r, gid, units="objectBoundingBox" if sizeless else r.choice(("userSpaceOnUse", "objectBoundingBox"))))
        g.gradids.append(gid)
    if r.random() < 0.3:
        g.defs.append(gd.Node("clipPath", {"id": "nested-svg-viewport-0"}, [gd.Node("rect", {"x": "0", "y": "0", "width": "50", "height": "50"})]))
        g.clipids.append("nested-svg-viewport-0")
        g.f["colliding_viewport_id"] += 1
    body = []
    for i in range(r.randint(2, 4)):
        s = g.shape(closed_only=True)
        s.attrs["fill"] = f"url(#{base if r.random() < 0.5 else r.choice(gids)})"
        sid = f"sh{i}"
        s.attrs = {"id": sid, **s.attrs}
        g.idpool.append((sid, s))
        k = r.random()
        if k < 0.4:
            s.attrs["transform"] = g.transform()
            g.f["gradient_user_transformed"] += 1
        if r.random() < 0.3:
            s.attrs.update(gd.stroke_props(g, r))
            g.f["idd_shape_stroked"] += 1
            if r.random() < 0.35:
                # a gradient as stroke paint - possibly one that nothing uses as a fill
                s.attrs["stroke"] = f"url(#{r.choice(gids)})"
                g.f["gradient_stroke_paint"] += 1
        if r.random() < 0.06:
            s.attrs["opacity"] = "0"
            g.f["invisible_gradient_user"] += 1
        holder = s
        if r.random() < 0.5:
            holder = gd.Node("g", {"transform": g.transform()}, [s])
            if r.random() < 0.4:
                holder.attrs = {"id": f"gp{i}", **holder.attrs}
                g.idpool.append((f"gp{i}", holder))
        body.append(holder)
    for _ in range(r.randint(1, 5)):
        body.append(g.use_node())
        g.f["instances"] += 1
    if g.opt["nested_svg"]:
        body.append(g.nested_svg(1))
    root = g.document(body_nodes=body)
    if sizeless:
        # (a transformed user of a gradient needs the viewport as well: keep these documents untransformed)
        for n in root.iter():
            if n.kind == "el" and n.tag not in ("linearGradient", "radialGradient", "svg"):
                n.attrs.pop("transform", None)
                if n.tag == "use":
                    n.attrs.pop("x", None)
                    n.attrs.pop("y", None)
        del root.attrs["viewBox"]
        if r.random() < 0.5:
            root.attrs["width"] = "100"  # only one of the two
        g.f["root_without_any_size"] += 1
        g.f["root_without_viewbox"] += 1
    elif r.random() < 0.2:
        # no viewBox: the document size (and everything derived from it) comes from width/height
        del root.attrs["viewBox"]
        root.attrs["width"] = "100"
        root.attrs["height"] = "100"
        g.f["root_without_viewbox"] += 1
    gd.sanitize_redundant_explicit(root)
    g.f["sharing_docs"] += 1
    return gd.to_xml(root), g.f, root


class D(Driver):
    pid = "C08"
    rule = (
        "cases: documents in which ids are shared by several use / fill / clip-path references, id'd shapes are instanced 1-5 times and "
        "stroked (split in two), gradients are shared by transformed, untransformed and invisible shapes, gradient ids collide with the "
        "names the conversion generates (<id>_<n>, nested-svg-viewport-<n>), nested svgs generate clip ids; plus the mixed documents of "
        "C01. On every normal return: ids unique, every url(#...) resolves to a gradient in <defs>, every gradient in <defs> is used. "
        "Non-trivial = distinct outputs with >= 1 gradient or >= 2 ids from a source with a sharing pattern."
    )
    assumptions = ("only sources whose references all resolve are generated; conversions that raise are counted, not judged",)
    anchors = (
        ("picosvg.svg", "SVG._resolve_use"),
        ("picosvg.svg", "SVG._new_id"),
        ("picosvg.svg", "SVG._transformed_gradient"),
        ("picosvg.svg", "SVG._stroke"),
        ("picosvg.svg", "SVG._remove_orphaned_gradients"),
        ("picosvg.svg", "SVG._unnest_svg"),
        ("picosvg.svg", "SVG._add_to_defs"),
        ("picosvg.svg", "SVG.checkpicosvg"),
    )
    nt_floor = {"quick": 300, "thorough": 6000}
    feature_floors = {"instances": 200, "gradient_user_transformed": 100, "idd_shape_stroked": 50, "invisible_gradient_user": 20}
    time_budget = {"quick": 150, "thorough": 1200}

    def cases(self, tier, seed):
        n = 40 if tier == "quick" else 900
        return [("gen", seed, k, 40) for k in range(n)]

    def setup_worker(self, tier, seed):
        stagemon.install()

    def judge(self, res, doc, nd=3):
        res["evals"] += 1
        stagemon.reset()
        st, out = conv.convert(doc, ndigits=nd)
        if st != "ok":
            bump(res["counters"], "exception." + conv.exc_key(out)[:40])
            if "reuses id=" in str(out):
                # the library's own final gate saw a duplicate id: if the source's ids were unique,
                # the conversion introduced it
                try:
                    src_dups = xmlcanon.references(doc)["dup_ids"]
                except Exception:
                    src_dups = True
                if not src_dups:
                    res["viol"].append(dict(rule="duplicate_id", sig="duplicate_id:reported_by_final_gate",
                                            msg=f"the source has unique ids, yet the conversion stops at its final gate with: {str(out)[:300]}\nSOURCE: {doc[:2500]}",
                                            replay={"kind": "doc", "doc": doc, "ndigits": nd}))
            return
        stage = dict(stagemon.LAST)
        try:
            refs = xmlcanon.references(out)
        except Exception as e:
            res["viol"].append(dict(rule="unparsable_output", sig="unparsable_output", msg=repr(e), replay={"kind": "doc", "doc": doc}))
            return
        rp = {"kind": "doc", "doc": doc, "ndigits": nd}
        if refs["dup_ids"]:
            res["viol"].append(dict(rule="duplicate_id", sig="duplicate_id", msg=f"duplicate ids {refs['dup_ids']}\nSOURCE: {doc[:2500]}\nOUTPUT: {out[:1500]}", replay=rp))
        if refs["dangling"]:
            res["viol"].append(dict(rule="dangling_reference", sig="dangling_reference", msg=f"dangling references {refs['dangling']}\nSOURCE: {doc[:2500]}\nOUTPUT: {out[:1500]}", replay=rp))
        if refs["orphans"]:
            mech = None
            try:
                if stage.get("before") and stage["before"] != stage["after"] and not stage.get("stroke_junk") and not xmlcanon.references(stage["before"])["orphans"]:
                    mech = "gradient-orphaned-by-late-pruning"
            except Exception:
                pass
            res["viol"].append(dict(rule="orphan_gradient", sig="orphan_gradient" + (f":{mech}" if mech else ""), mech=mech,
                                    msg=f"unused gradients {refs['orphans']}\nSOURCE: {doc[:2500]}\nOUTPUT: {out[:1500]}", replay=rp))
        if not (refs["dup_ids"] or refs["dangling"] or refs["orphans"]):
            bump(res["counters"], "references_ok")
            if "Gradient" in out or len(refs["ids"]) >= 2:
                res["nt"].append(h8(out))
            if res["sample"] is None and "Gradient" in out:
                res["sample"] = {"source": doc[:1200], "output_ids": refs["ids"][:10]}

    def run_case(self, case):
        _, seed, k, n = case
        rng = random.Random(f"C08-{seed}-{k}")
        res = new_result()
        for i in range(n):
            if rng.random() < 0.6:
                text, f, root = sharing_doc(rng)
            else:
                text, f, root, meta = gd.mixed_doc(rng, unsupported=False, noise=False)
            for kk, v in f.items():
                bump(res["features"], kk, v)
            self.judge(res, text)
        for ev in events.drain():
            pass
        return res

    def replay(self, rp):
        res = new_result()
        self.judge(res, rp["doc"], rp.get("ndigits", 3))
        return res["viol"]
