"""C17 - conversion always terminates with a picosvg or an exception, never a hang."""
import json
import os
import random
import re
import shutil
import subprocess
import sys
import tempfile
import xml.etree.ElementTree as ET

from picomon import bootstrap, events
from picomon.driver import Driver, new_result, bump, h8
from picomon.gen import hostile, docs as gd
from picomon.ref import picogrammar as PGm

XLINK = "{http://www.w3.org/1999/xlink}href"
SECRET = "PICOMON-CANARY-SECRET-7f3a"
STEPS_PER_ELEMENT = 60000


def expanded_size(doc):
    """-> (element count of the use-expanded document or raw count if cyclic, cyclic?)"""
    text = re.sub(r"<!DOCTYPE[^\[>]*(\[.*?\])?\s*>", "", doc, flags=re.S)
    text = re.sub(r"&(?!amp;|lt;|gt;|quot;|apos;|#)\w+;", "", text)
    try:
        root = ET.fromstring(text)
    except ET.ParseError:
        return len(re.findall(r"<[A-Za-z]", doc)), False
    ids = {}
    for e in root.iter():
        if e.get("id") is not None and e.get("id") not in ids:
            ids[e.get("id")] = e
    raw = sum(1 for _ in root.iter())
    memo = {}
    state = {}

    class Cyc(Exception):
        pass

    def size(el):
        k = id(el)
        if k in memo:
            return memo[k]
        if state.get(k) == 1:
            raise Cyc()
        state[k] = 1
        n = 1
        for c in el:
            n += size(c)
        if isinstance(el.tag, str) and el.tag.endswith("}use"):
            t = ids.get((el.get(XLINK) or el.get("href") or "#")[1:])
            if t is not None:
                n += size(t)
        state[k] = 2
        memo[k] = n
        if n > 5_000_000:
            raise Cyc()
        return n

    try:
        sys.setrecursionlimit(max(sys.getrecursionlimit(), 5000))
        return size(root), False
    except Cyc:
        return raw, True
    except RecursionError:
        return raw, False


class D(Driver):
    pid = "C17"
    rule = (
        "cases: one fresh interpreter per document from an adversarial grammar: self-referencing use, use cycles of length 1-4 with fan-out "
        "1-2, use inside its own target, clipPath clip-path cycles of length 1-4, a clipPath using the clipped element, gradient href cycles "
        "of length 1-4 incl. chains that lead into a cycle from outside in every document order, href to non-gradients, dangling use/"
        "clip-path/fill/href, malformed numbers in every numeric attribute, unsupported elements, 50-400 levels of nesting, wide acyclic use "
        "DAGs (legitimately large expansions), DOCTYPEs with internal entities, bounded entity expansion chains and external general / "
        "parameter / http entities pointing at canary files; plus ordinary mixed documents. The child counts PY_START + backward-JUMP "
        "events in picosvg code (logical steps) and aborts at 60000*(e+20)+4e6 where e is the reference-expanded element count; it runs under "
        "strace -f -e trace=openat,connect. Oracle: no budget overrun, no watchdog kill, returned output satisfies the C01 grammar, no "
        "openat/connect on a canary and no canary content in the output. Non-trivial = distinct hostile documents whose targeted mechanism "
        "was reached (call counts from sys.monitoring)."
    )
    assumptions = (
        "liveness restated as bounded progress: logical steps <= 60000*(expanded elements + 20) + 4e6; an unbounded 'eventually' is out of reach of any finite run",
        "strace sees libxml2's file and socket activity, which Python audit hooks do not",
    )
    anchors = ()
    use_reach = False
    nt_floor = {"quick": 100, "thorough": 1500}
    feature_floors = {"reached__resolve_use": 20, "reached__resolve_clip_path": 8, "reached__apply_gradient_template": 15}
    time_budget = {"quick": 200, "thorough": 1500}
    case_timeout = 900
    backstop_s = 60

    def cases(self, tier, seed):
        n = 24 if tier == "quick" else 300
        cs = [("hostile", seed, k, 10) for k in range(n)]
        from picomon.gen import hostile as _h

        ne = len(_h.enumerated_cycles())
        for i in range(0, ne, 8):
            cs.append(("enumerated", i, min(ne, i + 8), 0))
        return cs

    def setup_worker(self, tier, seed):
        self.strace = shutil.which("strace")

    def _run_child(self, job, tmp, timeout):
        env = dict(os.environ)
        env["PYTHONPATH"] = bootstrap.VERIF_DIR
        trace = os.path.join(tmp, "trace.txt")
        cmd = [sys.executable, "-B", "-m", "picomon.c17child"]
        if self.strace:
            cmd = [self.strace, "-f", "-qq", "-e", "trace=openat,open,connect", "-o", trace] + cmd
        # own session, so that a hanging conversion is killed together with the strace that traces it
        # (killing strace alone detaches and leaves the child spinning)
        pr = subprocess.Popen(cmd, stdin=subprocess.PIPE, stdout=subprocess.PIPE, stderr=subprocess.PIPE, text=True, env=env, cwd=bootstrap.VERIF_DIR, start_new_session=True)
        try:
            so, se = pr.communicate(json.dumps(job), timeout=timeout)
        except subprocess.TimeoutExpired:
            import signal

            try:
                os.killpg(pr.pid, signal.SIGKILL)
            except ProcessLookupError:
                pass
            try:
                pr.communicate(timeout=10)
            except Exception:
                pass
            return None, "", trace

        class p:  # noqa
            stdout, stderr = so, se
        out = None
        for line in p.stdout.splitlines()[::-1]:
            try:
                out = json.loads(line)
                break
            except Exception:
                continue
        return out, p.stderr[-400:], trace

    def judge(self, res, doc, label, tmp, canary_dir, opts=None):
        opts = opts or {}
        e, cyclic = expanded_size(doc)
        # the additive term covers exhausting Python's recursion limit (clip-path / gradient href
        # cycles end in RecursionError, an exception the statement allows)
        budget = STEPS_PER_ELEMENT * (e + 20) + 4_000_000
        job = dict(doc=doc, budget=budget, rlimit_gb=3, **opts)
        res["evals"] += 1
        out, err, trace = self._run_child(job, tmp, self.backstop_s)
        rp = {"kind": "hostile", "doc": doc, "label": label, "opts": opts}
        bump(res["features"], "class_" + re.sub(r"\d+", "N", label))
        if out is None:
            # backstop fired without the step budget firing: re-run alone with a 10x limit
            out2, err2, trace = self._run_child(job, tmp, self.backstop_s * 4)
            if out2 is None:
                res["viol"].append(dict(rule="hang", sig="hang:" + re.sub(r"\d+", "N", label), mech=self.mech(label, doc, "hang"),
                                        msg=f"[{label}] no result within {self.backstop_s * 4}s and the step budget did not fire (native hang?)\n{doc[:1500]}", replay=rp))
            else:
                bump(res["counters"], "slow_but_finished")
            return
        bump(res["counters"], "outcome_" + out["outcome"])
        if out["outcome"] == "raised":
            bump(res["counters"], "exc_" + str(out["exc"]).split(":")[0])
        ratio = out["steps"] / budget
        res["_ratios"].append(ratio)
        if out["outcome"] in ("budget", "memory"):
            res["viol"].append(dict(rule="step_budget" if out["outcome"] == "budget" else "memory", sig=out["outcome"] + ":" + re.sub(r"\d+", "N", label),
                                    mech=self.mech(label, doc, out["outcome"]),
                                    msg=f"[{label}] {'exceeded the step budget' if out['outcome'] == 'budget' else 'hit the memory limit'}: {out['steps']} steps, budget {budget} "
                                        f"(reference-expanded elements {e}, cyclic={cyclic})\n{doc[:1500]}", replay=rp))
            return
        if out["outcome"] == "returned":
            errs = PGm.validate(out["output"], opts.get("ndigits", 3), opts.get("allow_text", False))
            errs = [x for x in errs if x[0] != "group_children"]  # C01's known late-pruning finding is judged there
            if errs:
                mech = None
                if all(re.search(r"(?i)=?'?(nan|[-+]?inf(inity)?)'?", m) for _, m in errs) and re.search(r'(?i)="\s*[-+]?(nan|inf|infinity|1e999)\s*"', doc):
                    mech = "non-finite-number-accepted"
                res["viol"].append(dict(rule="returned_non_pico", sig="returned_non_pico:" + errs[0][0] + (f":{mech}" if mech else ""), mech=mech, msg=f"[{label}] returned a document violating the grammar: {errs[:3]}\n{doc[:1500]}", replay=rp))
                return
            if SECRET in out["output"]:
                res["viol"].append(dict(rule="external_entity_content", sig="external_entity_content", msg=f"[{label}] canary content appears in the output\n{doc[:800]}", replay=rp))
                return
        # syscall trace: nothing may touch the canaries
        if self.strace and os.path.exists(trace):
            with open(trace, errors="replace") as f:
                tr = f.read()
            bump(res["counters"], "strace_lines", tr.count("\n"))
            if canary_dir in tr or re.search(r"connect\([^)]*sin_port=htons\(9\)", tr):
                line = next((l for l in tr.splitlines() if canary_dir in l or "htons(9)" in l), "")
                res["viol"].append(dict(rule="external_entity_access", sig="external_entity_access", msg=f"[{label}] syscall on a canary: {line[:200]}\n{doc[:800]}", replay=rp))
                return
        reached = {"use": "_resolve_use", "clip": "_resolve_clip_path", "gradient": "_apply_gradient_template"}
        target = next((fn for k, fn in reached.items() if label.startswith(k) or label.startswith("dangling_" + k) or ("_" + k) in label), None)
        if target is None:
            if out["calls"].get("fromstring", 0) > 0:
                res["nt"].append(h8(doc))
        elif out["calls"].get(target, 0) > 0:
            res["nt"].append(h8(doc))
            bump(res["features"], "reached_" + target)
        else:
            bump(res["counters"], "target_mechanism_not_reached." + re.sub(r"\d+", "N", label))
        if res["sample"] is None and label.startswith("wide_dag"):
            res["sample"] = {"class": label, "document": doc[:800], "outcome": out["outcome"], "steps": out["steps"], "budget": budget}

    def mech(self, label, doc, what):
        return None

    def run_case(self, case):
        enumerated = None
        if case[0] == "enumerated":
            enumerated = hostile.enumerated_cycles()[case[1]:case[2]]
            case = ("hostile", "enum", case[1], 0)
        _, seed, k, n = case
        rng = random.Random(f"C17-{seed}-{k}")
        res = new_result()
        res["_ratios"] = []
        tmp = tempfile.mkdtemp(prefix="picomon-c17-", dir=os.environ.get("VERIF_SCRATCH", "/var/tmp"))
        canary = os.path.join(tmp, "canary")
        os.makedirs(canary)
        for name in ("secret.txt", "param.dtd", "doc.dtd"):
            with open(os.path.join(canary, name), "w") as f:
                f.write(f'<!ENTITY leaked "{SECRET}">' if name.endswith("dtd") else SECRET)
        try:
            def hung():
                # a hang costs five minutes of wall clock (60 s + the 240 s re-run): one witness per case is
                # enough, the rest of the case is skipped and counted, so that a tree that hangs is reported
                # in minutes and before the case alarm could cut the case (and its witnesses) off
                if any(v.get("rule") == "hang" for v in res["viol"]):
                    bump(res["counters"], "cases_cut_short_after_a_hang")
                    return True
                return False

            for doc, label in enumerated or ():
                self.judge(res, doc, label, tmp, canary)
                bump(res["features"], "enumerated_cycle_layouts")
                if hung():
                    break
            for i in range(n):
                if hung():
                    break
                if rng.random() < 0.12:
                    doc, f, root, meta = gd.mixed_doc(rng, max_depth=2)
                    self.judge(res, doc, "ordinary_mixed", tmp, canary, dict(drop_unsupported=rng.random() < 0.5, allow_text=rng.random() < 0.3))
                else:
                    doc, label = hostile.hostile_doc(rng, canary)
                    self.judge(res, doc, label, tmp, canary)
        finally:
            shutil.rmtree(tmp, ignore_errors=True)
        rs = res.pop("_ratios")
        if rs:
            res["counters"]["max_step_ratio_permille"] = 0
            res["features"]["_ratio_max_permille_" + str(int(min(999, max(rs) * 1000) // 100) * 100)] = 1
        return res

    def replay(self, rp):
        res = new_result()
        res["_ratios"] = []
        tmp = tempfile.mkdtemp(prefix="picomon-c17-", dir="/var/tmp")
        try:
            os.makedirs(os.path.join(tmp, "canary"))
            self.judge(res, rp["doc"], rp.get("label", "replay"), tmp, os.path.join(tmp, "canary"), rp.get("opts"))
        finally:
            shutil.rmtree(tmp, ignore_errors=True)
        return res["viol"]
