"""C09 - rewriting shapes and path data never changes the curve they describe."""
import itertools
import math
import random

from picomon import attach, events
from picomon.driver import Driver, new_result, bump, h8
from picomon.gen import paths as gp
from picomon.monitors import rewritemon
from picomon.ref import pathgrammar as G, pathgeom as PG, curvecmp as CC, shapes as RS

METHODS = ("absolute", "absolute_moveto", "relative", "explicit_lines", "expand_shorthand", "arcs_to_cubics", "move",
           "subpaths", "remove_empty_subpaths", "round_floats", "as_cmd_seq")

SPECIALS = [
    "M0,0 L10,0 L10,10 Z L5,5 L0,10 Z",
    "M10,0 L20,0 L20,10 Z L10,10 L20,20 Z",
    "m5,5 l10,0 l0,10 z l-5,-5 l5,5 z m1,1 l2,2",
    "M0,0 M5,5 M10,10 L20,20",
    "M0,0 L0,0 L0,0 Z",
    "M1,1 l0,0 h0 v0 z",
    "M0,0 Q5,5 10,0 S20,5 30,0",
    "M0,0 C1,5 5,5 10,0 T30,0",
    "M0,0 L5,5 S20,5 30,0 T40,10",
    "M0,0 Q5,5 10,0 T20,0 T30,0 S35,5 40,0",
    "M0,0 C1,5 5,5 10,0 S15,-5 20,0 s5,5 10,0 t5,5",
    "M0,0 A5 5 0 0 1 10,0 S15,5 20,0",
    "M1,3 A1 3 90 0 0 -2,3 S1,3 2,-2",
    "M0,0 A5 5 0 0 1 0,0 L5,5",
    "M0,0 A0 5 0 0 1 10,0 A5 0 0 1 0 20,0",
    "M0,0 a5 5 0 1 1 10,0 a5 5 0 1 1 -10,0 z",
    "M0,0 H10 V10 H0 Z h5 v5",
    "m0,0 10,0 0,10 z",
    "M3,3 z z L4,4",
    "M0,0 L10,0 L10,1e-10 L0,1e-10 Z",
    "M0.1,0.2 l0.1,0.2 l0.1,0.2 l-0.3,-0.6",
    "M100,100 l1e-10,0 l-1e-10,1e-10 z",
    # the "full circle with one arc" idiom: end point next to the start point but not on it, large-arc flag set
    "M12,2 a5,5 0 1 1 1e-10,0 z",
    "M12,2 A5 5 0 1 0 12,2.0000000002",
    "M40,40 a10,6 30 1 0 -2e-10,1e-10 L60,60",
    "M3,3 A4 4 0 1 1 3.0000000005,3 A2 2 0 1 0 3,3.0000000004",
    "M0,0 a1e3,1e3 0 1 1 0,1e-9",
]


class D(Driver):
    pid = "C09"
    rule = (
        "cases: every sequence of the 20 path commands of length <= 3 (quick) / <= 4 (thorough) after an initial M/m with lattice "
        "arguments (coincident points, zeros, 4 arc variants), random sequences of length 5-40, listed special cases, basic shapes "
        "with random and degenerate parameters; each path goes through absolute, absolute_moveto, relative, explicit_lines, "
        "expand_shorthand, arcs_to_cubics, move, subpaths, remove_empty_subpaths, round_floats(0..6), as_cmd_seq on the real SVGPath. "
        "Non-trivial = distinct (method, command-letter sequence) judged ok by the reference with >= 2 drawing commands, plus distinct "
        "shape parameter sets."
    )
    assumptions = (
        "reference interpreter ref/pathgeom.py (SVG 1.1 paths chapter, F.6 arc notes); zero-extent subpaths are not matched",
        "exact rewrites: control points within 1e-9*(1+max|coord|) or Hausdorff fallback; arcs: 3e-4 * corrected radius",
    )
    anchors = (
        ("picosvg.svg_types", "SVGPath.walk"),
        ("picosvg.svg_types", "SVGPath._rewrite_path"),
        ("picosvg.svg_types", "_rewrite_coords"),
        ("picosvg.svg_types", "_next_pos"),
        ("picosvg.svg_types", "_move_endpoint"),
        ("picosvg.svg_types", "_explicit_lines_callback"),
        ("picosvg.svg_types", "SVGPath.expand_shorthand"),
        ("picosvg.svg_types", "SVGPath.arcs_to_cubics"),
        ("picosvg.svg_types", "SVGPath.subpaths"),
        ("picosvg.svg_types", "SVGPath.remove_empty_subpaths"),
        ("picosvg.svg_types", "SVGPath.move"),
        ("picosvg.svg_types", "SVGShape.as_cmd_seq"),
        ("picosvg.svg_types", "SVGPath.round_floats"),
        ("picosvg.svg_types", "SVGRect.as_path"),
        ("picosvg.svg_types", "SVGEllipse.as_path"),
        ("picosvg.svg_types", "SVGCircle.as_path"),
        ("picosvg.svg_types", "SVGLine.as_path"),
        ("picosvg.svg_types", "SVGPolygon.as_path"),
        ("picosvg.svg_types", "SVGPolyline.as_path"),
        ("picosvg.svg_meta", "cmd_coords"),
    )
    deciding_monitors = ("rewrite", "as_path")
    # every rewrite must have been *judged* often, not merely called: a rewrite that refuses (ValueError)
    # everything it is given would otherwise leave no trace
    feature_floors = {"rewrite.absolute.ok": 3000, "rewrite.absolute_moveto.ok": 3000, "rewrite.relative.ok": 3000, "rewrite.explicit_lines.ok": 3000,
                      "rewrite.expand_shorthand.ok": 3000, "rewrite.arcs_to_cubics.ok": 3000, "rewrite.move.ok": 1500, "rewrite.subpaths.ok": 3000,
                      "rewrite.as_cmd_seq.ok": 3000, "rewrite.round_floats.ok": 1500, "rewrite.remove_empty_subpaths.ok": 1500}
    nt_floor = {"quick": 2000, "thorough": 20000}
    time_budget = {"quick": 150, "thorough": 1200}

    def cases(self, tier, seed):
        cs = [("special",)]
        maxlen = 3 if tier == "quick" else 4
        for L in range(1, maxlen + 1):
            if L <= 2:
                cs.append(("seq", L, ()))
            elif L == 3:
                for a in gp.ALL20:
                    cs.append(("seq", L, (a,)))
            else:
                for a in gp.ALL20:
                    for b in gp.ALL20:
                        cs.append(("seq", L, (a, b)))
        for k in range(16 if tier == "quick" else 160):
            cs.append(("random", seed, k, 60))
        for k in range(8 if tier == "quick" else 48):
            cs.append(("shapes", seed, k, 250))
        from picomon.gen import corpus as _corpus

        _nf = len(_corpus.files())
        for _i in range(0, _nf, 12 if tier == "thorough" else 60):
            cs.append(("pipeline", _i, min(_nf, _i + 12)))
        return cs

    def setup_worker(self, tier, seed):
        rewritemon.install()
        from picosvg import svg_types as T

        self.T = T

    # ------------------------------------------------------------------
    def _run_path(self, d, res, rng=None, rounds=(0, 2)):
        P = self.T.SVGPath
        dx, dy = (3.0, -2.0) if rng is None else (round(rng.uniform(-50, 50), 2), round(rng.uniform(-50, 50), 2))
        calls = [
            lambda p: p.absolute(),
            lambda p: p.absolute_moveto(),
            lambda p: p.relative(),
            lambda p: p.explicit_lines(),
            lambda p: p.expand_shorthand(),
            lambda p: p.arcs_to_cubics(),
            lambda p: p.move(dx, dy),
            lambda p: p.subpaths(),
            lambda p: p.as_cmd_seq(),
            lambda p: p.absolute(inplace=True).relative(inplace=True).absolute(inplace=True),
        ]
        for nd in rounds:
            calls.append(lambda p, nd=nd: p.round_floats(nd))
        for ci, f in enumerate(calls):
            res["evals"] += 1
            try:
                f(P(d=d))
            except ValueError:
                bump(res["counters"], "rejected")
            except Exception as e:
                if events.is_harness_exc(e):
                    raise
                bump(res["counters"], "exception:" + type(e).__name__)
                # grammar-valid path data: a rewrite may refuse it (ValueError) but a crash is no rewrite at all
                name = ("absolute", "absolute_moveto", "relative", "explicit_lines", "expand_shorthand", "arcs_to_cubics", "move", "subpaths", "as_cmd_seq",
                        "absolute.relative.absolute", "round_floats", "round_floats")[min(ci, 11)]
                res["viol"].append(dict(rule="rewrite_crashes", sig=f"rewrite_crashes:{name}:{type(e).__name__}",
                                        msg=f"{name} on grammar-valid d={d!r} raised {type(e).__name__}: {e}", replay={"kind": "path", "d": d, "method": name}))
        # remove_empty_subpaths goes through Skia (might_paint); keep it last
        res["evals"] += 1
        try:
            P(d=d).remove_empty_subpaths()
        except ValueError:
            bump(res["counters"], "rejected")
        except Exception as e:
            if events.is_harness_exc(e):
                raise
            bump(res["counters"], "exception:" + type(e).__name__)

    def _collect(self, res):
        for ev in events.drain():
            res["viol"].append(dict(rule=ev["rule"], sig=ev["sig"], mech=ev.get("mech"), msg=ev["msg"],
                                    replay={"kind": "path", "d": ev.get("d"), "method": ev.get("method"), "args": ev.get("args"),
                                            "shape": ev.get("extra")}))
        for k, v in events.take_counts().items():
            bump(res["counters"], k, v)
        res["nt"] = events.take_nt()
        return res

    def run_case(self, case):
        kind = case[0]
        if case[0] == "pipeline":
            # every call of the monitored functions made while converting real documents
            from picomon import conv as _conv
            from picomon.gen import corpus as _corpus

            res = new_result()
            rewritemon.STATE["seen"] = set()
            rewritemon.STATE["sample_cap"] = 4000
            for _f in _corpus.files()[case[1]:case[2]]:
                _st, _ = _conv.convert(open(_f).read())
                res["evals"] += 1
                bump(res["features"], "pipeline_documents")
            rewritemon.STATE["seen"] = None
            rewritemon.STATE["sample_cap"] = None
            return self._collect(res)
        res = new_result()
        if kind == "special":
            for d in SPECIALS:
                self._run_path(d, res, rounds=(0, 1, 3, 6))
            res["sample"] = {"special": SPECIALS[1]}
            return self._collect(res)
        if kind == "seq":
            _, L, prefix = case
            n = 0
            for rest in itertools.product(gp.ALL20, repeat=L - len(prefix)):
                letters = prefix + rest
                rng = random.Random(hash(letters) & 0xFFFFFF if False else "".join(letters))
                first = "M" if rng.random() < 0.7 else "m"
                cmds = [(first, rng.choice(((1.0, 2.0), (0.0, 0.0), (3.0, 1.0))))]
                for c in letters:
                    cmds.append((c, rng.choice(gp.lattice_args(c, 0))))
                d = gp.render(cmds)
                self._run_path(d, res, rounds=(0,))
                n += 1
                if res["sample"] is None and L >= 3:
                    res["sample"] = {"enumerated_path": d}
            bump(res["features"], f"seq_len_{L}", n)
            return self._collect(res)
        if kind == "random":
            _, seed, k, n = case
            rng = random.Random(f"C09-rand-{seed}-{k}")
            for _ in range(n):
                lattice = rng.random() < 0.3
                cmds = gp.random_cmds(rng, rng.randint(5, 40), scale=rng.choice((10.0, 100.0, 1000.0)), lattice=lattice)
                d = gp.render(cmds, rng)
                self._run_path(d, res, rng, rounds=(rng.randint(0, 6), rng.randint(0, 6)))
                bump(res["features"], "random_paths")
                if res["sample"] is None:
                    res["sample"] = {"random_path": d}
            return self._collect(res)
        if kind == "shapes":
            _, seed, k, n = case
            rng = random.Random(f"C09-shape-{seed}-{k}")
            nts = []
            for _ in range(n):
                self._shape(rng, res, nts)
            self._collect(res)
            res["nt"] = list(res["nt"]) + nts
            return res
        raise ValueError(kind)

    # ------------------------------------------------------------------ basic shapes
    def _num(self, rng, lo, hi, degenerate=0.1):
        if rng.random() < degenerate:
            return 0.0
        return round(rng.uniform(lo, hi), rng.choice((0, 1, 3)))

    def _shape(self, rng, res, nts):
        T = self.T
        tag = rng.choice(RS.BASIC)
        a = {}
        if tag == "rect":
            a = {"x": self._num(rng, -50, 50), "y": self._num(rng, -50, 50), "width": self._num(rng, 0.5, 80), "height": self._num(rng, 0.5, 80)}
            k = rng.random()
            if k < 0.3:
                a["rx"] = self._num(rng, 0.5, 60, 0.0)
            elif k < 0.5:
                a["ry"] = self._num(rng, 0.5, 60, 0.0)
            elif k < 0.8:
                a["rx"] = self._num(rng, 0.5, 60, 0.0)
                a["ry"] = self._num(rng, 0.5, 60, 0.0)
            obj = T.SVGRect(**a)
        elif tag == "circle":
            a = {"cx": self._num(rng, -50, 50), "cy": self._num(rng, -50, 50), "r": self._num(rng, 0.5, 60)}
            obj = T.SVGCircle(**a)
        elif tag == "ellipse":
            a = {"cx": self._num(rng, -50, 50), "cy": self._num(rng, -50, 50), "rx": self._num(rng, 0.5, 60), "ry": self._num(rng, 0.5, 60)}
            obj = T.SVGEllipse(**a)
        elif tag == "line":
            a = {k: self._num(rng, -50, 50) for k in ("x1", "y1", "x2", "y2")}
            obj = T.SVGLine(**a)
        else:
            npts = rng.randint(0, 7)
            pts = [(self._num(rng, -50, 50), self._num(rng, -50, 50)) for _ in range(npts)]
            sep = rng.choice((" ", ",", ", "))
            s = rng.choice((" ", "  ", ",")).join(f"{gp.fmt_num(x, rng, 'plain')}{sep}{gp.fmt_num(y, rng, 'plain')}" for x, y in pts)
            a = {"points": s}
            obj = (T.SVGPolygon if tag == "polygon" else T.SVGPolyline)(**a)
        res["evals"] += 1
        attach.count("as_path")
        want = RS.outline(tag, {k: (v if isinstance(v, str) else repr(v)) for k, v in a.items()})
        try:
            path = obj.as_path()
            got = [(c, tuple(x)) for c, x in path]
            got_abs = None
        except Exception as e:
            if events.is_harness_exc(e):
                raise
            bump(res["counters"], "as_path_exception:" + type(e).__name__)
            if want and tag not in ("polyline", "polygon"):
                res["viol"].append(dict(rule="as_path_exception", sig=f"as_path_exception:{tag}:{type(e).__name__}",
                                        msg=f"{tag} {a} as_path raised {type(e).__name__}: {e}", replay={"kind": "shape", "tag": tag, "attrs": a}))
            return
        degenerate = (
            (tag == "rect" and (a["width"] == 0 or a["height"] == 0))
            or (tag == "circle" and a["r"] == 0)
            or (tag == "ellipse" and (a["rx"] == 0 or a["ry"] == 0))
        )
        if degenerate:
            # rendering of such an element is disabled by the shapes chapter; there is no
            # outline to compare - only require that as_path() works and encloses no area
            polys = PG.flatten(got)
            area = sum(abs(PG.polygon_area(p)) for p in polys)
            if area > 1e-9:
                res["viol"].append(dict(rule="as_path_outline", sig=f"as_path_degenerate_area:{tag}", msg=f"{tag} {a}: zero-size shape has outline area {area}",
                                        replay={"kind": "shape", "tag": tag, "attrs": a}))
            else:
                bump(res["counters"], "as_path_degenerate_ok")
            return
        try:
            ok, why, info = CC.same_curve(want, got, curve_tol=0.0)
        except Exception as e:
            bump(res["counters"], "as_path_inconclusive")
            return
        if ok and tag in ("circle", "ellipse") and False:
            pass
        if not ok:
            res["viol"].append(dict(rule="as_path_outline", sig=f"as_path_outline:{tag}",
                                    msg=f"{tag} {a}: as_path gives {path.d!r}, the shapes chapter gives {gp.render(want)!r}: {why}",
                                    replay={"kind": "shape", "tag": tag, "attrs": a}))
            return
        bump(res["counters"], "as_path_ok")
        bump(res["features"], "shape_" + tag)
        nts.append(h8("shape", tag, sorted(a.items())))
        if res["sample"] is None:
            res["sample"] = {"shape": tag, "attrs": a, "as_path": path.d}
        # the shape's own command-sequence normal form is judged by the as_cmd_seq monitor
        # only for SVGPath receivers; do it here for the basic shape
        try:
            seq = [(c, tuple(x)) for c, x in obj.as_cmd_seq()]
        except Exception as e:
            if events.is_harness_exc(e):
                raise
            return
        if any(c not in "MLQCZ" for c, _ in seq):
            res["viol"].append(dict(rule="target_form", sig="as_cmd_seq:target_form", msg=f"{tag} {a}: as_cmd_seq letters {[c for c, _ in seq]}",
                                    replay={"kind": "shape", "tag": tag, "attrs": a}))
            return
        tol = 3e-4 * CC.max_arc_radius(want)
        ok, why, _ = CC.same_curve(want, seq, curve_tol=tol)
        if not ok:
            res["viol"].append(dict(rule="curve_changed", sig=f"as_cmd_seq:shape:{tag}", msg=f"{tag} {a}: as_cmd_seq differs from the outline: {why}",
                                    replay={"kind": "shape", "tag": tag, "attrs": a}))

    # ------------------------------------------------------------------
    def replay(self, rp):
        res = new_result()
        if rp.get("kind") == "path":
            self._run_path(rp["d"], res, rounds=(0, 1, 2, 3, 6))
        self._collect(res)
        return res["viol"]
