"""C06 - rewritten gradients assign the same colour to every point of their shapes."""
import random
import re

from picomon import conv
from picomon.drivers.renderbase import RenderDriver
from picomon.gen import docs as gd
from picomon.ref import render as RR


class D(RenderDriver):
    pid = "C06"
    mode = "color"
    color_tol = 6e-3
    steep_probe = 3e-3  # root units; see conv.compare_colors
    rule = (
        "cases: linear and radial gradients (numbers and percentages, both gradientUnits, gradientTransform lists incl. rotation/skew/"
        "translation, all spread methods, focal points inside the end circle, fr, href chains contributing attributes and/or stops) filling "
        "rects, circles, ellipses and curved paths under translations (translation folding), general transform chains and group "
        "transforms; one gradient shared by several shapes and by an invisible shape. The colour the reference assigns at every retained "
        "interior point of the source must equal the colour of the converted document at that point (|dRGBA| <= 6e-3), and every output "
        "gradient must be self-contained (no href, plain numbers, own stops). A sub-workload plants the known-finding class (gradient "
        "declared before its template). Non-trivial = distinct documents with >= 10 retained non-empty points and a gradient that was rewritten."
    )
    assumptions = ("reference gradient model ref/gradient.py (pservers chapter; two-circle radial gradients with fr); objectBoundingBox only on unclipped, unstroked shapes",)
    anchors = (
        ("picosvg.svg", "SVG._transformed_gradient"),
        ("picosvg.svg", "SVG._apply_gradient_template"),
        ("picosvg.svg", "SVG._apply_gradient_translation"),
        ("picosvg.svg_types", "_SVGGradient.as_user_space_units"),
        ("picosvg.svg_types", "SVGLinearGradient.from_element"),
        ("picosvg.svg_types", "SVGRadialGradient.from_element"),
        ("picosvg.svg_transform", "Affine2D.decompose_translation"),
        ("picosvg.svg_transform", "Affine2D.rect_to_rect"),
        ("picosvg.svg_transform", "Affine2D.round"),
    )
    nt_floor = {"quick": 120, "thorough": 3000}
    feature_floors = {"judged.grad_linearGradient": 120, "judged.grad_radialGradient": 120, "judged.grad_href": 55, "judged.grad_href_stops": 30, "judged.grad_units_userSpaceOnUse": 80, "judged.grad_units_objectBoundingBox": 80, "judged.grad_percent": 100, "judged.grad_focal": 45, "judged.grad_transform": 120, "judged.grad_shape_transform": 100, "judged.grad_group_transform": 120, "judged.grad_shared_under_one_transform": 40, "judged.grad_nonsquare_viewbox": 50, "judged.grad_defs_after_users": 25, "grad_linearGradient": 100, "grad_radialGradient": 100, "grad_href": 60, "grad_href_stops": 20, "grad_transform": 100,
                      "grad_units_userSpaceOnUse": 60, "grad_units_objectBoundingBox": 60, "grad_percent": 60, "grad_focal": 20,
                      "grad_shape_translate": 60, "grad_shape_transform": 60, "grad_spread_repeat": 20, "grad_spread_reflect": 20, "grad_shared_under_one_transform": 60}

    def gen_doc(self, rng):
        if rng.random() < 0.06:
            text, f, root = gd.gradient_doc(rng, template_before_user=True)
            return text, f, {"root": root, "class": "user_before_template"}
        text, f, root = gd.gradient_doc(rng)
        return text, f, {"root": root, "class": "main"}

    def is_nontrivial(self, st, feats, meta):
        return st["nonempty"] >= 10

    def check_doc(self, doc, res, rng, feats=None, meta=None, ndigits=3):
        r = super().check_doc(doc, res, rng, feats, meta, ndigits)
        if r:
            out = r[1]
            for m in re.finditer(r"<(linear|radial)Gradient[^>]*>", out):
                t = m.group(0)
                if "href" in t or "%" in t:
                    res["viol"].append(dict(rule="gradient_not_self_contained", sig="gradient_not_self_contained",
                                            msg=f"output gradient {t}", replay={"kind": "doc", "doc": doc}))
        return r

    def classify(self, doc, out, mismatch, meta):
        eng = self.engine_fault(doc, out)
        if eng:
            return eng
        if not meta:
            meta = {"root": gd.from_xml(doc)}
        # known mechanism: a gradient processed before the template it references inherits the
        # template's coordinates *after* the template's own translation was folded into them.
        # Simulation in the reference model: with the template declared first the same document converts correctly.
        root = meta["root"].copy()
        defs = [c for c in root.children if c.tag == "defs"]
        if not defs:
            return None
        d = defs[0]
        order = {c.attrs.get("id"): i for i, c in enumerate(d.children)}
        moved = False
        for c in list(d.children):
            h = c.attrs.get("xlink:href", "")[1:]
            if h in order and order[h] > order[c.attrs["id"]]:
                moved = True
        if not moved:
            return None
        # topological order: templates first
        def depth(c):
            n = 0
            seen = set()
            while c is not None and c.attrs.get("xlink:href") and id(c) not in seen:
                seen.add(id(c))
                h = c.attrs["xlink:href"][1:]
                c = next((x for x in d.children if x.attrs.get("id") == h), None)
                n += 1
            return n
        depths = {id(c): depth(c) for c in d.children}  # (a list looks empty to its own sort key)
        d.children.sort(key=lambda c: depths[id(c)])
        fixed = gd.to_xml(root)
        st, out2 = conv.convert(fixed)
        if st != "ok":
            return None
        try:
            src, dst = RR.build(doc), RR.build(out2)
            pts = conv.sample_points(src, random.Random(2), eps=0.4) + [mismatch[0]]
            r = conv.compare_colors(src, dst, pts, 0.4, self.color_tol)
            if r["mismatch"] is None and r["kept"] >= 30:
                return "gradient-declared-before-its-template"
        except Exception:
            return None
        return None
