"""C19 - clipping to the viewBox and bounding boxes are geometrically exact."""
import math
import random
import re

from picomon import attach, conv, events
from picomon.driver import Driver, new_result, bump, h8
from picomon.gen import docs as gd, paths as gp, shapes as gs
from picomon.monitors import paintmon
from picomon.ref import render as RR, pathgeom as PG, pathgrammar as G, curvecmp as CC


def judge_bbox(shape, rect):
    """Reported Rect of one shape vs the reference tight box."""
    cmds = paintmon.shape_cmds(shape)
    if cmds is None or any(not all(map(math.isfinite, a)) for _, a in cmds):
        return "out_of_domain", None
    # a moveto that draws nothing is not curve geometry (consecutive movetos collapse)
    kept = []
    bare = False
    for sp in PG.interpret(cmds):
        if any(not (sg[0] == "A" and sg[1] == sg[7]) for sg in sp.segs):
            kept.append(sp)
        else:
            # whether a drawing-free moveto counts is engine-defined: containment only
            # (an arc whose end points coincide is omitted by SVG F.6.2: it draws nothing either)
            bare = True
    if not kept:
        return "out_of_domain", None
    bb = PG.tight_bbox(cmds, only_drawn=True)
    if bb is None:
        return "out_of_domain", None
    scale = max(1.0, max(abs(v) for v in bb))
    slack = 3e-5 * scale + 3e-4 * CC.max_arc_radius(cmds)
    got = (rect.x, rect.y, rect.x + rect.w, rect.y + rect.h)
    names = ("left", "top", "right", "bottom")
    for k in range(4):
        if abs(got[k] - bb[k]) > slack:
            inside = (got[k] <= bb[k] + slack) if k < 2 else (got[k] >= bb[k] - slack)
            if inside and bare:
                continue
            return "violation", (f"{names[k]} side reported {got[k]!r}, geometry extreme is {bb[k]!r} "
                                 f"({'not tight' if inside else 'does not contain the geometry'})")
    curved = any(c in "QCASTqcast" for c, _ in cmds)
    return "ok", curved


class D(Driver):
    pid = "C19"
    rule = (
        "cases: (a) picosvg documents produced by converting generated sources (groups kept for opacity, evenodd-origin shapes, "
        "gradients) whose root viewBox has a random origin (negative, zero, positive) and size so that shapes lie inside, outside, "
        "straddle every side and corner or touch the border; SVG.clip_to_viewbox (copy and in-place) and the command line route "
        "(python -m picosvg.picosvg --clip_to_viewbox on the source, stdin/file in, stdout/--output_file out), also on objects with a history "
        "(born with another viewBox, queried via view_box/tolerance/shapes/bounding_box/copying clip, viewBox then edited in place), are judged by the reference renderer: "
        "inside the viewBox the composited colour is unchanged, outside it is empty, samples uniform + biased to the viewBox border and "
        "corners, outside the band of shape edges and of the viewBox rectangle; (b) SVGShape.bounding_box / SVG.bounding_box on shapes with "
        "curves whose extrema lie strictly inside, arcs, degenerate shapes and multi-shape documents, judged against analytic extrema. "
        "Non-trivial = distinct documents with a straddling shape and >= 10 retained points on both sides of the border; distinct curved "
        "shapes whose control box is strictly larger than the tight box."
    )
    assumptions = ("reference renderer (ref/render.py) and analytic extrema (ref/pathgeom.tight_bbox); slack 3e-5*(1+|coord|) for Skia's float32, 3e-4*r for arcs",)
    anchors = (
        ("picosvg.svg", "SVG.clip_to_viewbox"),
        ("picosvg.picosvg", "_run"),
        ("picosvg.geometric_types", "Rect.intersection"),
        ("picosvg.geometric_types", "Rect.union"),
        ("picosvg.svg", "SVG.bounding_box"),
        ("picosvg.svg_types", "SVGShape.bounding_box"),
        ("picosvg.svg_pathops", "bounding_box"),
    )
    optional_anchors = ("picosvg._run",)  # runs in a child process; its reach is the cli_clip.judged floor
    deciding_monitors = ("clip_to_viewbox", "bounding_box", "Rect.intersection", "Rect.union")
    nt_floor = {"quick": 200, "thorough": 4000}
    feature_floors = {"clipped.touches_border": 40, "clipped.fully_outside": 40, "clipped.group_partly_clipped_away": 30,
                      "cli_clip.judged": 20, "cli_clip.judged_with_paint_outside": 10,
                      "clip_after_viewbox_edit.no_shapes_loaded": 15, "clip_after_viewbox_edit.shapes_loaded": 15}
    time_budget = {"quick": 150, "thorough": 1200}

    def cases(self, tier, seed):
        n = 40 if tier == "quick" else 900
        ncli = 8 if tier == "quick" else 60
        return [("clip", seed, k, 8) for k in range(n)] + [("clipcli", seed, k, 5) for k in range(ncli)] + [("bbox", seed, k, 150) for k in range(n // 4)]

    def setup_worker(self, tier, seed):
        from picosvg import svg_types as T
        from picosvg.svg import SVG

        self.T, self.SVG = T, SVG

        def make(orig):
            def bounding_box(self_):
                r = orig(self_)
                attach.count("bounding_box")
                try:
                    v, info = judge_bbox(self_, r)
                except Exception as e:
                    if events.is_harness_exc(e):
                        raise
                    v, info = "inconclusive", None
                if v == "violation":
                    events.emit("bounding_box", "violation", rule="bbox", sig="bounding_box", msg=f"{paintmon.describe(self_)}: {info}",
                                replay={"kind": "bbox", "tag": type(self_).tag, "fields": paintmon._fields(self_)})
                else:
                    events.emit("bounding_box", v)
                    if v == "ok" and info:
                        events.NT.add(h8("bb", paintmon.describe(self_)))
                return r

            return bounding_box

        attach.wrap_method(T.SVGShape, "bounding_box", make)

        # Rect.intersection / Rect.union against interval arithmetic done here
        from picosvg.geometric_types import Rect

        self.Rect = Rect

        def ref_isect(a, b):
            x1, x2 = max(a[0], b[0]), min(a[0] + a[2], b[0] + b[2])
            y1, y2 = max(a[1], b[1]), min(a[1] + a[3], b[1] + b[3])
            return (x1, y1, x2 - x1, y2 - y1) if x2 > x1 and y2 > y1 else None

        def ref_union(a, b):
            x, y = min(a[0], b[0]), min(a[1], b[1])
            return (x, y, max(a[0] + a[2], b[0] + b[2]) - x, max(a[1] + a[3], b[1] + b[3]) - y)

        def make_rect(name, ref):
            def mk(orig):
                def w(self_, other):
                    r = orig(self_, other)
                    attach.count("Rect." + name)
                    a, b = tuple(map(float, self_)), tuple(map(float, other))
                    if not all(map(math.isfinite, a + b)) or min(a[2], a[3], b[2], b[3]) < 0:
                        events.emit("Rect." + name, "out_of_domain")
                        return r
                    want = ref(a, b)
                    got = None if r is None else tuple(map(float, r))
                    scale = 1 + max(abs(v) for v in a + b)
                    ok = (want is None) == (got is None) and (want is None or max(abs(x - y) for x, y in zip(want, got)) <= 1e-9 * scale)
                    if ok:
                        events.emit("Rect." + name, "ok")
                        if want is not None:
                            events.COUNT["Rect." + name + ".nonempty_result"] += 1
                    else:
                        events.emit("Rect." + name, "violation", rule="rect_" + name, sig="Rect." + name,
                                    msg=f"Rect{a}.{name}(Rect{b}) = {got}, interval arithmetic gives {want}", replay={"kind": "rect", "op": name, "a": a, "b": b})
                    return r

                return w

            attach.wrap_method(Rect, name, mk)

        make_rect("intersection", ref_isect)
        make_rect("union", ref_union)

    # ------------------------------------------------------------ clip_to_viewbox
    def _pico_doc(self, rng):
        k = rng.random()
        vx, vy = rng.choice((0.0, 0.0, rng.uniform(-60, 0), rng.uniform(0, 50), float(rng.randint(-40, 40))))  if False else (0, 0)
        vx = rng.choice((0.0, round(rng.uniform(-60, 0), 1), round(rng.uniform(0, 50), 1), float(rng.randint(-40, 40))))
        vy = rng.choice((0.0, round(rng.uniform(-60, 0), 1), round(rng.uniform(0, 50), 1), float(rng.randint(-40, 40))))
        vw, vh = round(rng.uniform(30, 110), 1), round(rng.uniform(30, 110), 1)
        if rng.random() < 0.25:
            # origins inside (-1, 1), spelled the ways the number grammar allows (".5", "-.25", "5e-1", "+0.5")
            vx, vy = rng.choice((0.5, -0.5, 0.25, -0.75)), rng.choice((0.5, -0.25, 0.75, -0.5))

            def sp(v):
                k = rng.random()
                t = repr(v)
                if k < 0.5:
                    return t.replace("0.", ".", 1)
                if k < 0.7:
                    return gp.fmt_num(v, rng, "exp")
                if k < 0.85 and v > 0:
                    return "+" + t
                return t

            vb = f"{sp(vx)}{rng.choice((' ', ',', ', ', '  '))}{sp(vy)} {gd.fnum(vw)} {gd.fnum(vh)}"
            f_lex = True
        else:
            vb = f"{gd.fnum(vx)} {gd.fnum(vy)} {gd.fnum(vw)} {gd.fnum(vh)}"
            f_lex = False
        if k < 0.5:
            text, f, root = gd.paint_doc(rng, max_depth=2)
        elif k < 0.8:
            text, f, root = gd.structural(rng, max_depth=2, nested_svg=False)
        else:
            text, f, root = gd.gradient_doc(rng)
        # a shape that touches the border exactly / lies fully outside
        extra = []
        if rng.random() < 0.5:
            extra.append(f'<rect x="{gd.fnum(vx)}" y="{gd.fnum(vy + 5)}" width="10" height="10" fill="#010203"/>')
            f["touches_border"] += 1
        if rng.random() < 0.5:
            extra.append(f'<rect x="{gd.fnum(vx + vw + 3)}" y="{gd.fnum(vy)}" width="10" height="10" fill="#040506"/>')
            f["fully_outside"] += 1
        if rng.random() < 0.4:
            extra.append(f'<g opacity="0.5"><rect x="{gd.fnum(vx - 20)}" y="{gd.fnum(vy - 20)}" width="15" height="15" fill="#070809"/>'
                         f'<rect x="{gd.fnum(vx - 30)}" y="{gd.fnum(vy + 10)}" width="40" height="15" fill="#0a0b0c"/></g>')
            f["group_partly_clipped_away"] += 1
        if rng.random() < 0.4:
            # a self-overlapping outline that straddles a border, with every combination of fill-rule and a
            # stray clip-rule (clip-rule means nothing outside a clipPath, and it survives the conversion)
            side = rng.randrange(4)
            cx = (vx, vx + vw, rng.uniform(vx + 20, vx + vw - 20), rng.uniform(vx + 20, vx + vw - 20))[side] + rng.uniform(-6, 6)
            cy = (rng.uniform(vy + 20, vy + vh - 20), rng.uniform(vy + 20, vy + vh - 20), vy, vy + vh)[side] + rng.uniform(-6, 6)
            o = gs.rule_sensitive(rng, lo=30, hi=70)  # centred somewhere in 50..50 +- ; recentre by a translate
            attrs = f'fill="#0d0e0f" transform="translate({gd.fnum(round(cx - 50, 2))} {gd.fnum(round(cy - 50, 2))})"'
            fr, cr = rng.choice((None, "nonzero", "evenodd")), rng.choice((None, "nonzero", "evenodd", "evenodd"))
            if fr:
                attrs += f' fill-rule="{fr}"'
            if cr:
                attrs += f' clip-rule="{cr}"'
                f["stray_clip_rule"] += 1
            extra.append(f'<path d="{gp.render(o)}" {attrs}/>')
            f["self_overlapping_straddler"] += 1
        text = text.replace("</svg>", "".join(extra) + "</svg>") if extra else text
        text = re.sub(r'viewBox="[^"]*"', f'viewBox="{vb}"', text, count=1)
        if f_lex:
            f["viewbox_lexical_forms"] += 1
        return text, f, (vx, vy, vw, vh)

    def _clip_case(self, rng, res):
        src_doc, feats, vb = self._pico_doc(rng)
        for k, v in feats.items():
            bump(res["features"], k, v)
        st, pico = conv.convert(src_doc)
        if st != "ok":
            bump(res["counters"], "source_convert_exception")
            return
        res["evals"] += 1
        attach.count("clip_to_viewbox")
        inplace = rng.random() < 0.5
        hist = rng.random() < 0.3
        try:
            if hist:
                # object history: the object is born with another viewBox, answers queries about it (view_box,
                # tolerance, shapes, a copying clip), then has its viewBox edited in place to the target, then is
                # clipped; the clipping must be to the viewBox the document has *now*
                m = re.search(r'viewBox="([^"]*)"', pico)
                vx, vy, vw, vh = vb
                vb0 = f"{gd.fnum(round(vx + rng.choice((-1, 1)) * rng.uniform(0.3, 0.9) * vw, 1))} {gd.fnum(round(vy + rng.choice((-1, 0, 1)) * rng.uniform(0.3, 0.9) * vh, 1))} {gd.fnum(round(vw * rng.uniform(0.5, 1.6), 1))} {gd.fnum(round(vh * rng.uniform(0.5, 1.6), 1))}"
                svg = self.SVG.fromstring(pico.replace(m.group(0), f'viewBox="{vb0}"', 1))
                steps = []
                for q in rng.sample(("view_box", "tolerance", "shapes", "copy_clip", "bounding_box"), rng.randint(1, 3)):
                    steps.append(q)
                    if q == "view_box":
                        svg.view_box()
                    elif q == "tolerance":
                        svg.tolerance
                    elif q == "shapes":
                        svg.shapes()
                    elif q == "bounding_box":
                        svg.bounding_box()
                    else:
                        svg.clip_to_viewbox(inplace=False)
                if rng.random() < 0.3:
                    svg.remove_attributes(("viewBox",), inplace=True)
                    steps.append("remove_viewBox")
                svg.set_attributes((("viewBox", m.group(1)),), inplace=True)
                bump(res["features"], "clip_after_viewbox_edit")
                bump(res["features"], "clip_after_viewbox_edit." + ("shapes_loaded" if ("shapes" in steps or "bounding_box" in steps) else "no_shapes_loaded"))
            else:
                svg = self.SVG.fromstring(pico)
            r = svg.clip_to_viewbox(inplace=inplace)
            out = r.tostring()
            if inplace and r is not svg:
                res["viol"].append(dict(rule="inplace_identity", sig="clip_to_viewbox:inplace_identity", msg="in-place clip_to_viewbox did not return the receiver",
                                        replay={"kind": "clip", "doc": pico}))
            chk = self.SVG.fromstring(out).checkpicosvg()
        except Exception as e:
            if events.is_harness_exc(e):
                raise
            bump(res["counters"], "clip_exception." + type(e).__name__)
            bump(res["counters"], "clipexc." + conv.exc_key(e))
            return
        if chk:
            res["viol"].append(dict(rule="not_picosvg", sig="clip_to_viewbox:not_picosvg", msg=f"clip_to_viewbox output fails checkpicosvg: {chk}\n{out[:800]}",
                                    replay={"kind": "clip", "doc": pico}))
            return
        for k, v in feats.items():
            if k in ("touches_border", "fully_outside", "group_partly_clipped_away"):
                bump(res["features"], "clipped." + k, v)  # only documents whose clipping returned
        self._judge_clip_render(res, pico, out, vb, rng, {"kind": "clip", "doc": pico}, "library-after-viewBox-edit" if hist else "library")

    def _judge_clip_render(self, res, pico, out, vb, rng, replay, entry):
        """pico: the unclipped picosvg; out: what claims to be pico clipped to its viewBox."""
        try:
            a, b = RR.build(pico), RR.build(out)
        except RR.RefError:
            bump(res["counters"], "reference_out_of_subset")
            return
        vx, vy, vw, vh = vb
        eps = 0.004 * max(vw, vh)
        pts = conv.sample_points(a, rng, n_uniform=100, n_edge=60, eps=eps)
        # bias to the viewBox border and corners
        for _ in range(90):
            side = rng.randrange(4)
            t = rng.random()
            off = rng.uniform(1.5, 6) * eps * rng.choice((-1, 1))
            if side == 0:
                pts.append((vx + off, vy + t * vh))
            elif side == 1:
                pts.append((vx + vw + off, vy + t * vh))
            elif side == 2:
                pts.append((vx + t * vw, vy + off))
            else:
                pts.append((vx + t * vw, vy + vh + off))
        for cx, cy in ((vx, vy), (vx + vw, vy), (vx, vy + vh), (vx + vw, vy + vh)):
            for _ in range(6):
                pts.append((cx + rng.uniform(2, 8) * eps * rng.choice((-1, 1)), cy + rng.uniform(2, 8) * eps * rng.choice((-1, 1))))
        kept_in = kept_out = 0
        straddle = False
        for p in pts:
            dvb = min(abs(p[0] - vx), abs(p[0] - vx - vw), abs(p[1] - vy), abs(p[1] - vy - vh))
            inside = vx < p[0] < vx + vw and vy < p[1] < vy + vh
            if dvb < eps and (vx - eps < p[0] < vx + vw + eps) and (vy - eps < p[1] < vy + vh + eps):
                continue
            try:
                ca = a.stack(p, eps)
                cb = b.stack(p, eps)
            except Exception as e:
                if events.is_harness_exc(e):
                    raise
                bump(res["counters"], "reference_out_of_subset")
                return
            if ca is None:
                continue
            if inside:
                if cb is None:
                    continue
                kept_in += 1
                # same paints in the same order with the same effective opacity (a bounding-box-unit
                # gradient keeps its reference; its colours follow the cut shape's new box - C06 scope)
                ok = len(ca) == len(cb) and all(x[0] == y[0] and abs(x[2] - y[2]) <= 2e-3 for x, y in zip(ca, cb))
            else:
                if cb is None:
                    continue
                kept_out += 1
                if ca:
                    straddle = True
                ok = not cb
            if not ok:
                mech = self._clip_engine_fault(pico, p)
                res["viol"].append(dict(rule="clip_render", sig=("cli:" if entry == "CLI" else "") + "clip_to_viewbox:" + ("inside_changed" if inside else "paint_outside_viewbox") + (f":{mech}" if mech else ""), mech=mech,
                                        msg=f"[{entry}] viewBox {vb}: at {p} ({'inside' if inside else 'outside'}) input renders {ca}, clipped output renders {cb}\nINPUT: {pico[:1500]}\nOUTPUT: {out[:1500]}",
                                        replay=replay))
                return
        bump(res["counters"], "clip_points_inside", kept_in)
        bump(res["counters"], "clip_points_outside", kept_out)
        if straddle:
            bump(res["counters"], "docs_with_paint_outside")
        if straddle and kept_in >= 10 and kept_out >= 10:
            res["nt"].append(h8(entry, pico))
        if entry == "CLI":
            bump(res["features"], "cli_clip.judged")
            if straddle:
                bump(res["features"], "cli_clip.judged_with_paint_outside")
        if res["sample"] is None and straddle:
            res["sample"] = {"pico_document": pico[:1200], "viewBox": vb}

    def _clipcli_case(self, rng, res):
        """The command line route: python -m picosvg.picosvg --clip_to_viewbox on the *source* document (stdin or
        file, stdout or --output_file).  What it prints must be a picosvg that renders as the source's picosvg
        does inside the viewBox and paints nothing outside - the same oracle as the library route."""
        import os, shutil, subprocess, sys, tempfile
        from picomon import bootstrap

        src_doc, feats, vb = self._pico_doc(rng)
        st, pico = conv.convert(src_doc, ndigits=3)
        if st != "ok":
            bump(res["counters"], "source_convert_exception")
            return
        res["evals"] += 1
        bump(res["features"], "cli_clip.runs")
        env = dict(os.environ)
        env["PYTHONPATH"] = os.path.join(bootstrap.repo_root(), "src")
        env["PYTHONUTF8"] = "1"
        tmp = tempfile.mkdtemp(prefix="picomon-c19cli-", dir=os.environ.get("VERIF_SCRATCH", "/var/tmp"))
        try:
            args = [sys.executable, "-m", "picosvg.picosvg", rng.choice(("--clip_to_viewbox", "--clip_to_viewbox=true", "--clip_to_viewbox"))]
            if rng.random() < 0.3:
                args.append(rng.choice(("--drop_unsupported", "--allow_text", "--noallow_text")))
            outp = os.path.join(tmp, "out.svg")
            use_outfile = rng.random() < 0.5
            if use_outfile:
                args += ["--output_file", outp]
            inp = None
            if rng.random() < 0.5:
                inf = os.path.join(tmp, "in.svg")
                with open(inf, "w", encoding="utf-8") as fh:
                    fh.write(src_doc)
                args.append(inf)
            else:
                inp = src_doc
            try:
                p = subprocess.run(args, input=inp, capture_output=True, text=True, encoding="utf-8", timeout=180, env=env)
            except subprocess.TimeoutExpired:
                bump(res["counters"], "cli_clip_timeout")
                return
            if p.returncode != 0:
                bump(res["counters"], "cli_clip_failed")
                return
            out = open(outp, encoding="utf-8").read() if use_outfile else p.stdout
        finally:
            shutil.rmtree(tmp, ignore_errors=True)
        rp = {"kind": "clipcli", "doc": src_doc, "args": args[3:4]}
        try:
            chk = self.SVG.fromstring(out).checkpicosvg()
        except Exception as e:
            if events.is_harness_exc(e):
                raise
            res["viol"].append(dict(rule="not_picosvg", sig="cli:clip_to_viewbox:unparsable_output", msg=f"CLI {args[3:]} printed something that does not parse: {e!r}\n{out[:600]}", replay=rp))
            return
        if chk:
            res["viol"].append(dict(rule="not_picosvg", sig="cli:clip_to_viewbox:not_picosvg", msg=f"CLI {args[3:]} output fails checkpicosvg: {chk}\n{out[:800]}", replay=rp))
            return
        attach.count("clip_to_viewbox")
        self._judge_clip_render(res, pico, out, vb, rng, rp, "CLI")

    def _clip_engine_fault(self, pico, point):
        """Attribution: re-run the clipping with the C13 pathop monitor judging every boolean
        operation at (and around) the mismatching point; a wrong intersection that a direct
        skia-pathops call reproduces is the engine's."""
        from picomon.monitors import boolmon

        if not getattr(self, "_boolmon", False):
            boolmon.STATE["judge"] = False
            boolmon.install()
            self._boolmon = True
        saved = events.drain()
        boolmon.STATE.update(judge=True, n=0, cap=400, extra_points=[point])
        try:
            self.SVG.fromstring(pico).clip_to_viewbox().tostring()
        except Exception as e:
            if events.is_harness_exc(e):
                raise
        finally:
            boolmon.STATE.update(judge=False, extra_points=None)
        evs = events.drain()
        events.LOG.extend(saved)
        if any(ev.get("mech") == "skia-engine-wrong-result" for ev in evs):
            return "skia-engine-wrong-result"
        return None

    # ------------------------------------------------------------ bounding boxes
    def _bbox_case(self, rng, res):
        T = self.T
        k = rng.random()
        res["evals"] += 1
        try:
            if k < 0.35:
                d = gp.render(gs.blob(rng, rng.uniform(-50, 150), rng.uniform(-50, 150), rng.uniform(3, 60)))
                sh = T.SVGPath(d=d)
            elif k < 0.6:
                cmds = gp.random_cmds(rng, rng.randint(1, 8), scale=rng.choice((10.0, 100.0, 1000.0)))
                sh = T.SVGPath(d=gp.render(cmds))
            elif k < 0.7:
                sh = T.SVGCircle(cx=rng.uniform(-50, 50), cy=rng.uniform(-50, 50), r=rng.uniform(0.5, 40))
            elif k < 0.8:
                sh = T.SVGEllipse(cx=rng.uniform(-50, 50), cy=rng.uniform(-50, 50), rx=rng.uniform(0.5, 40), ry=rng.uniform(0.5, 40))
            elif k < 0.9:
                sh = T.SVGRect(x=rng.uniform(-50, 50), y=rng.uniform(-50, 50), width=rng.uniform(0, 40), height=rng.uniform(0, 40), rx=rng.choice((0, rng.uniform(0, 30))))
            else:
                sh = T.SVGPath(d=rng.choice(("M0,0 C0,100 100,100 100,0", "M10,10 Q60,-40 110,10 T210,10", "M5,5 A20 10 30 1 1 40,40", "M1,1", "M3,4 L3,4",
                                             "M0,0 C100,0 -100,100 0,100", "M0,0 Q50,100 100,0")))
            sh.bounding_box()
        except Exception as e:
            if events.is_harness_exc(e):
                raise
            bump(res["counters"], "bbox_exception." + type(e).__name__)
        # rectangle algebra: overlapping, nested, touching, disjoint (near and far), degenerate
        for _ in range(3):
            ax, ay, aw, ah = rng.uniform(-50, 50), rng.uniform(-50, 50), rng.choice((0.0, rng.uniform(0.1, 60))), rng.uniform(0.1, 60)
            kk = rng.random()
            if kk < 0.25:
                b = (ax + aw + rng.choice((0.0, 0.5, 3.0, 20.0)), ay + rng.uniform(-10, 10), rng.uniform(1, 30), rng.uniform(1, 30))
            elif kk < 0.4:
                b = (ax + rng.uniform(0, aw / 2), ay + rng.uniform(0, ah / 2), aw / 4, ah / 4)
            elif kk < 0.55:
                b = (ax + rng.uniform(-5, 5), ay - rng.uniform(1, 30) - rng.choice((0.0, 0.5, 4.0)), rng.uniform(1, 30), rng.uniform(1, 30))
                b = (b[0], b[1], b[2], ay - b[1] - rng.choice((0.0, 0.5, 4.0)))
            else:
                b = (rng.uniform(-60, 60), rng.uniform(-60, 60), rng.uniform(0.1, 60), rng.uniform(0.1, 60))
            if b[3] < 0:
                b = (b[0], b[1], b[2], 0.0)
            try:
                A, B = self.Rect(ax, ay, aw, ah), self.Rect(*b)
                A.intersection(B)
                B.intersection(A)
                A.union(B)
            except Exception as e:
                if events.is_harness_exc(e):
                    raise
                bump(res["counters"], "rect_exception." + type(e).__name__)
        # document level: union over shapes
        if rng.random() < 0.15:
            shapes = [gd.to_xml(gd.Node("path", {"d": gp.render(gs.blob(rng, rng.uniform(0, 100), rng.uniform(0, 100), rng.uniform(3, 30)))})) for _ in range(rng.randint(2, 4))]
            doc = '<svg xmlns="http://www.w3.org/2000/svg" viewBox="0 0 100 100">' + "".join(shapes) + "</svg>"
            try:
                svg = self.SVG.fromstring(doc)
                bb = svg.bounding_box()
                boxes = [PG.tight_bbox(G.parse(re.search(r'd="([^"]*)"', s).group(1))) for s in shapes]
                want = (min(b[0] for b in boxes), min(b[1] for b in boxes), max(b[2] for b in boxes), max(b[3] for b in boxes))
                got = (bb.x, bb.y, bb.x + bb.w, bb.y + bb.h)
                if max(abs(x - y) for x, y in zip(got, want)) > 1e-2 * 0 + 3e-5 * (1 + max(abs(v) for v in want)):
                    res["viol"].append(dict(rule="doc_bbox", sig="SVG.bounding_box", msg=f"document box {got} vs union of tight shape boxes {want}\n{doc}",
                                            replay={"kind": "docbbox", "doc": doc}))
                else:
                    bump(res["counters"], "doc_bbox_ok")
            except Exception as e:
                if events.is_harness_exc(e):
                    raise
                bump(res["counters"], "docbbox_exception." + type(e).__name__)

    def run_case(self, case):
        kind, seed, k, n = case
        rng = random.Random(f"C19-{kind}-{seed}-{k}")
        res = new_result()
        for _ in range(n):
            if kind == "clip":
                self._clip_case(rng, res)
            elif kind == "clipcli":
                self._clipcli_case(rng, res)
            else:
                self._bbox_case(rng, res)
        for ev in events.drain():
            res["viol"].append(dict(rule=ev["rule"], sig=ev["sig"], mech=ev.get("mech"), msg=ev["msg"], replay=ev.get("replay")))
        for kk, v in events.take_counts().items():
            bump(res["counters"], kk, v)
        res["nt"] = list(res["nt"]) + events.take_nt()
        return res

    def _clipcli_replay(self, rp, res):
        import os, subprocess, sys
        from picomon import bootstrap

        env = dict(os.environ)
        env["PYTHONPATH"] = os.path.join(bootstrap.repo_root(), "src")
        env["PYTHONUTF8"] = "1"
        try:
            st, pico = conv.convert(rp["doc"], ndigits=3)
            p = subprocess.run([sys.executable, "-m", "picosvg.picosvg", "--clip_to_viewbox"], input=rp["doc"], capture_output=True, text=True, encoding="utf-8", timeout=180, env=env)
            if st != "ok" or p.returncode != 0:
                return
            a = RR.build(pico)
            self._judge_clip_render(res, pico, p.stdout, a.viewbox, random.Random(0), rp, "CLI")
        except Exception as e:
            if events.is_harness_exc(e):
                raise
            res["viol"].append(dict(rule="exception", msg=repr(e)))

    def replay(self, rp):
        res = new_result()
        if rp.get("kind") == "clip":
            try:
                out = self.SVG.fromstring(rp["doc"]).clip_to_viewbox().tostring()
                a, b = RR.build(rp["doc"]), RR.build(out)
                vb = a.viewbox
                rng = random.Random(0)
                for _ in range(2000):
                    p = (rng.uniform(vb[0] - 30, vb[0] + vb[2] + 30), rng.uniform(vb[1] - 30, vb[1] + vb[3] + 30))
                    inside = vb[0] < p[0] < vb[0] + vb[2] and vb[1] < p[1] < vb[1] + vb[3]
                    if min(abs(p[0] - vb[0]), abs(p[0] - vb[0] - vb[2]), abs(p[1] - vb[1]), abs(p[1] - vb[1] - vb[3])) < 0.5:
                        continue
                    ca, cb = a.color(p, 0.4), b.color(p, 0.4)
                    if ca is None or cb is None:
                        continue
                    if (inside and max(abs(x - y) for x, y in zip(ca, cb)) > 4e-3) or (not inside and cb[3] > 1e-9):
                        res["viol"].append(dict(rule="clip_render", mech=self._clip_engine_fault(rp["doc"], p), msg=f"at {p}: {ca} -> {cb}"))
                        break
            except Exception as e:
                res["viol"].append(dict(rule="exception", msg=repr(e)))
        elif rp.get("kind") == "clipcli":
            self._clipcli_replay(rp, res)
        elif rp.get("kind") == "rect":
            try:
                getattr(self.Rect(*rp["a"]), rp["op"])(self.Rect(*rp["b"]))
            except Exception:
                pass
        elif rp.get("kind") == "bbox":
            T = self.T
            cls = {"rect": T.SVGRect, "circle": T.SVGCircle, "ellipse": T.SVGEllipse, "line": T.SVGLine, "polygon": T.SVGPolygon,
                   "polyline": T.SVGPolyline, "path": T.SVGPath}[rp.get("tag", "path")]
            try:
                cls(**rp["fields"]).bounding_box()
            except Exception:
                pass
        elif rp.get("kind") == "docbbox":
            try:
                doc = rp["doc"]
                bb = self.SVG.fromstring(doc).bounding_box()
                boxes = [PG.tight_bbox(G.parse(d)) for d in re.findall(r'<path[^>]* d="([^"]*)"', doc)]
                want = (min(b[0] for b in boxes), min(b[1] for b in boxes), max(b[2] for b in boxes), max(b[3] for b in boxes))
                got = (bb.x, bb.y, bb.x + bb.w, bb.y + bb.h)
                if max(abs(x - y) for x, y in zip(got, want)) > 3e-5 * (1 + max(abs(v) for v in want)):
                    res["viol"].append(dict(rule="doc_bbox", msg=f"document box {got} vs union of tight shape boxes {want}"))
            except Exception:
                pass
        return res["viol"] + [dict(rule=ev["rule"], mech=ev.get("mech"), msg=ev["msg"]) for ev in events.drain()]
