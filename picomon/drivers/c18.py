"""C18 - pruning of invisible content is conservative."""
import math
import random

from picomon import events
from picomon.driver import Driver, new_result, bump
from picomon.gen import paths as gp, shapes as gs
from picomon.monitors import paintmon

FILLS = ("black", "red", "none", "#00f")


class D(Driver):
    pid = "C18"
    rule = (
        "cases: shapes of all seven kinds and paths with proper areas, collinear points, zero-size shapes, coincident subpaths (nonzero "
        "vs evenodd), move-only paths, M..Z only, zero-length segments, thin slivers, self-intersecting single contours whose signed areas "
        "cancel (figure-eights, hourglasses), multi-subpath paths mixing painting and empty subpaths, subpaths started implicitly after Z; "
        "x fill in {colour, none} x stroke in {none, colour} x stroke-width {0, small, large} x opacities {0, .5, 1} x display, given as "
        "attributes or style. Every might_paint() call and every remove_empty_subpaths() call on the real classes is judged; "
        "SVG.remove_unpainted_shapes is judged end to end on generated documents. Non-trivial = distinct shapes with a definite ground truth."
    )
    assumptions = (
        "ground truth: reference interior-disc search (clearance >= 0.5% of the extent) / positive-length stroked segment; everything else is 'unknown' and not judged",
        "True on a shape that paints nothing is permitted over-approximation",
    )
    anchors = (
        ("picosvg.svg_types", "SVGShape.might_paint"),
        ("picosvg.svg_types", "SVGPath.remove_empty_subpaths"),
        ("picosvg.svg", "SVG.remove_unpainted_shapes"),
        ("picosvg.svg", "SVG.remove_empty_subpaths"),
        ("picosvg.svg_pathops", "path_area"),
    )
    deciding_monitors = ("might_paint", "remove_empty_subpaths")
    feature_floors = {"small_area": 90, "engine_refuses": 40, "signed_area_cancels": 120, "coincident_twice": 120, "collinear": 150, "sliver": 80, "retrace_then_loop_transformed": 70, "outline_transformed": 70, "mixed_subpaths": 150, "move_only": 80, "zero_extent": 60, "basic_degenerate": 80, "documents": 80, "might_paint.truth_paints.answer_True": 1500, "might_paint.truth_nothing.answer_False": 1500, "remove_empty_subpaths.ok": 500}
    nt_floor = {"quick": 1500, "thorough": 20000}
    time_budget = {"quick": 120, "thorough": 900}

    def cases(self, tier, seed):
        n = 48 if tier == "quick" else 640
        return [("shapes", seed, k, 120) for k in range(n)] + [("docs", seed, k, 12) for k in range(n // 2)]

    def setup_worker(self, tier, seed):
        paintmon.install()
        from picosvg import svg_types as T
        from picosvg.svg import SVG

        self.T, self.SVG = T, SVG

    # ------------------------------------------------------------ geometry classes
    def _geometry(self, rng):
        """-> (tag, attrs or d, class label)"""
        k = rng.random()
        r2 = lambda a, b: round(rng.uniform(a, b), 2)
        if k < 0.12:
            tag = rng.choice(("rect", "circle", "ellipse"))
            degenerate = rng.random() < 0.4
            if tag == "rect":
                a = dict(x=r2(0, 50), y=r2(0, 50), width=0.0 if degenerate and rng.random() < 0.5 else r2(1, 40), height=0.0 if degenerate else r2(1, 40))
                if rng.random() < 0.4:
                    a["rx"] = r2(0.5, 10)
            elif tag == "circle":
                a = dict(cx=r2(0, 50), cy=r2(0, 50), r=0.0 if degenerate else r2(1, 30))
            else:
                a = dict(cx=r2(0, 50), cy=r2(0, 50), rx=0.0 if degenerate else r2(1, 30), ry=r2(1, 30))
            return tag, a, "basic_degenerate" if degenerate else "basic_area"
        if k < 0.18:
            return "line", dict(x1=r2(0, 50), y1=r2(0, 50), x2=r2(0, 50), y2=r2(0, 50)), "line"
        if k < 0.26:
            tag = rng.choice(("polygon", "polyline"))
            if rng.random() < 0.4:  # collinear
                x0, y0, dx, dy = r2(0, 30), r2(0, 30), float(rng.randint(1, 5)), float(rng.randint(-4, 4))
                pts = [(x0 + i * dx, y0 + i * dy) for i in (0, 3, 1, 2)]
                lab = "collinear"
            else:
                pts = [(r2(0, 60), r2(0, 60)) for _ in range(rng.randint(3, 6))]
                lab = "poly_area"
            return tag, dict(points=" ".join(f"{x},{y}" for x, y in pts)), lab
        # paths
        k2 = rng.random()
        if rng.random() < 0.07:
            # small but real areas (well below one square unit), as rectangle, triangle or circle-like path
            x0, y0 = r2(0, 50), r2(0, 50)
            sz = rng.choice((0.05, 0.2, 0.3, 0.5, 0.8))
            kind = rng.random()
            if kind < 0.4:
                return "rect", dict(x=x0, y=y0, width=sz, height=sz * rng.choice((1.0, 0.5, 1.5))), "small_area"
            if kind < 0.6:
                return "circle", dict(cx=x0, cy=y0, r=sz / 2), "small_area"
            return "path", gp.render([("M", (x0, y0)), ("L", (x0 + sz, y0)), ("L", (x0 + sz / 2, y0 + sz)), ("Z", ())]), "small_area"
        if rng.random() < 0.04:
            # a contour on which the engine's simplify gives up (it raises): the answer must stay conservative
            from picomon.ref import pathgrammar as _G

            base = _G.parse("M38.8,3.081 C54.3,82.591 91.186,61 51,20.03 C37.4,76 16,70 26,52.778 C85.665,26.1 76,70 10.4,9 Z")
            if rng.random() < 0.5:
                j = 10.0 ** rng.uniform(-6, -2)
                base = [(c, tuple(v + rng.uniform(-j, j) for v in a)) for c, a in base]
            return "path", gp.render(base), "engine_refuses"
        if k2 < 0.08:
            return "path", gp.render([("M", (r2(0, 50), r2(0, 50)))] + [(rng.choice("Mm"), (r2(0, 9), r2(0, 9))) for _ in range(rng.randint(0, 3))]), "move_only"
        if k2 < 0.14:
            return "path", rng.choice(("M1,1 Z", "M5,5 z M6,6 Z", "M0,0 L0,0 Z", "M3,3 l0,0 h0 v0", "M2,2 L2,2")), "zero_extent"
        if k2 < 0.24:
            x0, y0 = float(rng.randint(0, 20)), float(rng.randint(0, 20))
            dx, dy = float(rng.randint(1, 6)), float(rng.randint(-5, 5))
            return "path", gp.render([("M", (x0, y0)), ("L", (x0 + 3 * dx, y0 + 3 * dy)), ("L", (x0 + dx, y0 + dy)), ("L", (x0 + 2 * dx, y0 + 2 * dy))] + ([("Z", ())] if rng.random() < 0.5 else [])), "collinear"
        if k2 < 0.34:
            # coincident subpaths: cancel under evenodd, not under nonzero
            o = gs.rect(r2(0, 30), r2(0, 30), r2(5, 30), r2(5, 30))
            return "path", gp.render(o + o), "coincident_twice"
        if k2 < 0.46:
            # self-intersecting single contour with cancelling signed area
            cx, cy, w, h = r2(20, 60), r2(20, 60), r2(5, 20), r2(5, 20)
            kind = rng.random()
            if kind < 0.5:
                o = gs.figure8(cx, cy, w, h)
            else:
                o = [("M", (cx - w, cy - h)), ("L", (cx + w, cy - h)), ("L", (cx - w, cy + h)), ("L", (cx + w, cy + h)), ("Z", ())]
            return "path", gp.render(o), "signed_area_cancels"
        if k2 < 0.54:
            # thin sliver around the tolerance
            x0, y0, L = r2(0, 50), r2(0, 50), r2(10, 60)
            t = rng.choice((1e-7, 1e-4, 1e-2, 0.05, 0.5))
            return "path", gp.render([("M", (x0, y0)), ("L", (x0 + L, y0)), ("L", (x0 + L, y0 + t)), ("L", (x0, y0 + t)), ("Z", ())]), "sliver"
        if k2 < 0.68:
            # mix of painting and empty subpaths, incl. implicit start after Z
            parts = []
            for _ in range(rng.randint(2, 4)):
                kk = rng.random()
                if kk < 0.4:
                    parts += gs.rect(r2(0, 60), r2(0, 60), r2(3, 20), r2(3, 20), ccw=rng.random() < 0.5)
                elif kk < 0.6:
                    parts += [("M", (r2(0, 60), r2(0, 60)))]
                elif kk < 0.8:
                    x0, y0 = r2(0, 60), r2(0, 60)
                    parts += [("M", (x0, y0)), ("L", (x0 + 5, y0 + 5)), ("L", (x0 + 10, y0 + 10)), ("Z", ())]
                else:
                    parts += [("L", (r2(0, 60), r2(0, 60))), ("L", (r2(0, 60), r2(0, 60))), ("Z", ())]
            if parts[0][0] != "M":
                parts = [("M", (r2(0, 60), r2(0, 60)))] + parts
            return "path", gp.render(parts), "mixed_subpaths"
        if k2 < 0.74:
            return "path", gp.render(gs.any_outline(rng)), "outline"
        if k2 < 0.88:
            # geometry at full float precision (as it is after a transform has been applied):
            # an outline, or a closed path that runs back over its own straight edge around a curve loop
            if rng.random() < 0.5:
                o = gs.any_outline(rng)
                lab = "outline_transformed"
            else:
                x0, y0 = r2(0, 40), r2(20, 60)
                L = r2(5, 20)
                t = r2(0.1, 0.6) * L
                c1 = (x0 + r2(5, 40), y0 - L + r2(-15, 15))
                c2 = (x0 + r2(-30, 10), y0 - L - r2(5, 40))
                o = [("M", (x0, y0)), ("L", (x0, y0 - L)), ("C", c1 + c2 + (x0, y0 - L - t)), ("Z", ())]
                lab = "retrace_then_loop_transformed"
            th, sk = rng.uniform(0, 6.283), math.tan(rng.uniform(-0.6, 0.6))
            sx, sy = rng.uniform(0.5, 2.0), rng.uniform(0.5, 2.0)
            a, b, c, d = sx * math.cos(th), sx * math.sin(th), sy * (sk * math.cos(th) - math.sin(th)), sy * (sk * math.sin(th) + math.cos(th))
            e, f = rng.uniform(-20, 40), rng.uniform(-20, 40)
            o2 = []
            for cmd, args in o:
                if cmd in "MLCQ":
                    o2.append((cmd, tuple(v for i in range(0, len(args), 2) for v in (a * args[i] + c * args[i + 1] + e, b * args[i] + d * args[i + 1] + f))))
                elif cmd in "Zz":
                    o2.append((cmd, ()))
                else:
                    return "path", gp.render(o), "outline"  # relative / arc commands: leave untransformed
            return "path", gp.render(o2), lab
        cmds = gp.random_cmds(rng, rng.randint(2, 8), scale=50.0)
        return "path", gp.render(cmds), "random_path"

    def _paint(self, rng):
        fill = rng.choice(FILLS)
        stroke = rng.choice(("none", "none", "black", "green"))
        p = {
            "fill": fill,
            "stroke": stroke,
            "stroke-width": rng.choice((0.0, 0.5, 1.0, 6.0)),
            "opacity": rng.choice((1.0, 1.0, 0.5, 0.0)),
            "fill-opacity": rng.choice((1.0, 1.0, 0.5, 0.0)),
            "stroke-opacity": rng.choice((1.0, 1.0, 0.5, 0.0)),
            "fill-rule": rng.choice(("nonzero", "evenodd")),
            "display": rng.choice(("inline", "inline", "inline", "none")),
            "stroke-linecap": rng.choice(("butt", "round", "square")),
        }
        # drop defaults at random so that defaults are exercised too
        for k in list(p):
            if rng.random() < 0.35:
                del p[k]
        return p

    def _make(self, tag, geo, paint, rng):
        T = self.T
        cls = {"rect": T.SVGRect, "circle": T.SVGCircle, "ellipse": T.SVGEllipse, "line": T.SVGLine, "polygon": T.SVGPolygon,
               "polyline": T.SVGPolyline, "path": T.SVGPath}[tag]
        kw = dict(geo) if tag != "path" else {"d": geo}
        style = []
        for k, v in paint.items():
            mode = rng.random()
            sv = v if isinstance(v, str) else repr(v)
            if mode < 0.55:
                kw[k.replace("-", "_")] = v
            elif mode < 0.85:
                style.append(f"{k}:{sv}")
            else:  # both, conflicting: style must win
                other = {"fill": "none" if v != "none" else "red", "stroke": "none" if v != "none" else "black", "display": "inline" if v == "none" else "none",
                         "fill-rule": "nonzero" if v == "evenodd" else "evenodd", "stroke-linecap": "butt" if v != "butt" else "round"}.get(k)
                if other is None:
                    other = 0.0 if v else 1.0
                kw[k.replace("-", "_")] = other
                style.append(f"{k}:{sv}")
        if style:
            kw["style"] = rng.choice(("; ", ";")).join(style)
        return cls(**kw)

    def run_case(self, case):
        kind, seed, k, n = case
        rng = random.Random(f"C18-{kind}-{seed}-{k}")
        res = new_result()
        if kind == "shapes":
            for _ in range(n):
                tag, geo, lab = self._geometry(rng)
                paint = self._paint(rng)
                bump(res["features"], lab)
                try:
                    sh = self._make(tag, geo, paint, rng)
                except Exception as e:
                    bump(res["counters"], "construct_exception")
                    continue
                res["evals"] += 1
                try:
                    sh.might_paint()
                except Exception as e:
                    if events.is_harness_exc(e):
                        raise
                    bump(res["counters"], "might_paint_exception." + type(e).__name__)
                if tag == "path":
                    res["evals"] += 1
                    try:
                        sh.remove_empty_subpaths(inplace=rng.random() < 0.3)
                    except Exception as e:
                        if events.is_harness_exc(e):
                            raise
                        bump(res["counters"], "remove_empty_exception." + type(e).__name__)
                if tag == "path" and lab in ("coincident_twice", "outline", "signed_area_cancels", "mixed_subpaths") and rng.random() < 0.5:
                    # the same geometry under the other fill rule, in the same process (anything
                    # memoised by geometry alone would leak the first answer into the second)
                    import dataclasses as _dc

                    other = "evenodd" if sh.fill_rule == "nonzero" else "nonzero"
                    try:
                        twin = _dc.replace(sh, fill_rule=other, style="")
                        res["evals"] += 1
                        bump(res["features"], "same_geometry_other_rule")
                        twin.might_paint()
                        sh.might_paint()
                    except Exception as e:
                        if events.is_harness_exc(e):
                            raise
                if res["sample"] is None and lab == "signed_area_cancels":
                    res["sample"] = {"shape": paintmon.describe(sh)}
        else:
            for _ in range(n):
                self._doc(rng, res)
        for ev in events.drain():
            res["viol"].append(dict(rule=ev["rule"], sig=ev["sig"], mech=ev.get("mech"), msg=ev["msg"], replay=ev.get("replay")))
        for kk, v in events.take_counts().items():
            bump(res["counters"], kk, v)
        res["nt"] = events.take_nt()
        return res

    # ------------------------------------------------------------ documents
    def _doc(self, rng, res):
        """SVG.remove_unpainted_shapes / SVG.remove_empty_subpaths on a generated document:
        every shape the reference says definitely paints must survive."""
        import xml.etree.ElementTree as ET

        els = []
        truths = []
        for i in range(rng.randint(3, 8)):
            tag, geo, lab = self._geometry(rng)
            paint = self._paint(rng)
            try:
                sh = self._make(tag, geo, paint, rng)
            except Exception:
                continue
            attrs = {}
            import dataclasses

            for f in dataclasses.fields(sh):
                v = getattr(sh, f.name)
                d = f.default
                if f.name in ("rx", "ry") and tag == "rect":
                    continue
                if v != d and not (isinstance(d, float) and d != d):
                    attrs[f.name.replace("_", "-")] = v if isinstance(v, str) else repr(v)
            if tag == "rect" and "rx" in geo:
                attrs["rx"] = repr(geo["rx"])
            attrs["id"] = f"s{i}"
            try:
                gt, why = paintmon.ground_truth(sh)
            except Exception:
                gt, why = "unknown", ""
            truths.append((f"s{i}", gt, why, paintmon.describe(sh), sh))
            els.append("<%s %s/>" % (tag, " ".join(f'{k}="{v}"' for k, v in attrs.items())))
        doc = '<svg xmlns="http://www.w3.org/2000/svg" viewBox="0 0 100 100">' + "".join(els) + "</svg>"
        res["evals"] += 1
        bump(res["features"], "documents")
        try:
            svg = self.SVG.fromstring(doc)
            out = svg.remove_unpainted_shapes(inplace=rng.random() < 0.5)
            s = out.tostring()
        except Exception as e:
            if events.is_harness_exc(e):
                raise
            bump(res["counters"], "doc_exception." + type(e).__name__)
            return
        try:
            self.SVG.fromstring(doc).remove_empty_subpaths(inplace=rng.random() < 0.5).tostring()
        except Exception as e:
            if events.is_harness_exc(e):
                raise
            bump(res["counters"], "doc_res_exception." + type(e).__name__)
        kept = {e.get("id") for e in ET.fromstring(s).iter() if e.get("id")}
        for sid, gt, why, desc, sh in truths:
            if gt == "paints":
                bump(res["counters"], "doc_shapes_paint")
                if sid not in kept:
                    mech = "skia-simplify-empties-painted-outline" if why.startswith("interior point") and paintmon.engine_collapses(sh) else None
                    res["viol"].append(dict(rule="painting_shape_removed", sig="remove_unpainted_shapes:painting_shape_removed" + (f":{mech}" if mech else ""), mech=mech,
                                            msg=f"remove_unpainted_shapes dropped {desc}, which paints ({why})", replay={"kind": "doc", "doc": doc}))
            elif gt == "nothing":
                bump(res["counters"], "doc_shapes_nothing_" + ("kept" if sid in kept else "removed"))

    def replay(self, rp):
        if rp.get("kind") == "doc":
            res = new_result()
            try:
                self.SVG.fromstring(rp["doc"]).remove_unpainted_shapes().tostring()
            except Exception:
                pass
        elif rp.get("kind") in ("shape", "remove_empty"):
            T = self.T
            f = dict(rp["fields"])
            cls = {"rect": T.SVGRect, "circle": T.SVGCircle, "ellipse": T.SVGEllipse, "line": T.SVGLine, "polygon": T.SVGPolygon,
                   "polyline": T.SVGPolyline, "path": T.SVGPath}[rp.get("tag", "path")]
            try:
                sh = cls(**f)
                sh.might_paint()
                if rp["kind"] == "remove_empty":
                    sh.remove_empty_subpaths()
            except Exception:
                pass
        return [dict(rule=ev["rule"], msg=ev["msg"]) for ev in events.drain()]
