"""C14 - content that renderers ignore never influences the converted document."""
import copy
import random
import re
import xml.etree.ElementTree as ET

from picomon import conv, events
from picomon.driver import Driver, new_result, bump, h8
from picomon.gen import docs as gd, corpus
from picomon.ref import xmlcanon

SVGNS = "http://www.w3.org/2000/svg"


def strip_noise_text(text):
    """Removal direction on real files: drop comments, PIs, title/desc/metadata and
    foreign-namespace elements/attributes with the standard library (not with picosvg)."""
    parser = ET.XMLParser(target=ET.TreeBuilder(insert_comments=True, insert_pis=True))
    root = ET.fromstring(text, parser=parser)
    n = 0

    def rec(el):
        nonlocal n
        for c in list(el):
            drop = False
            if not isinstance(c.tag, str):
                drop = True
            else:
                ns = c.tag[1:].split("}")[0] if c.tag.startswith("{") else None
                name = c.tag.split("}")[-1]
                if ns != SVGNS or name in ("title", "desc", "metadata"):
                    drop = True
            if drop:
                # keep the tail text attached correctly
                el.remove(c)
                n += 1
            else:
                rec(c)
        for a in list(el.attrib):
            if a.startswith("{") and not a.startswith("{http://www.w3.org/1999/xlink}"):
                del el.attrib[a]
                n += 1

    rec(root)
    ET.register_namespace("", SVGNS)
    ET.register_namespace("xlink", "http://www.w3.org/1999/xlink")
    return ET.tostring(root, encoding="unicode"), n


class D(Driver):
    pid = "C14"
    rule = (
        "cases: pairs (D, N(D)) where D is a generated mixed / structural / gradient document or a file under tests/ and N inserts 1-12 "
        "ignorable items (comments, processing instructions, title/desc/metadata, foreign-namespace elements with children and attributes, "
        "id-less symbols with content, attribute-less wrapper groups around one or several siblings, inter-element whitespace, an XML "
        "declaration) at random tree positions incl. inside defs, gradients, clipPaths, translucent groups and between shapes; and the "
        "removal direction on real files. Both conversions must raise, or both return documents that are equal up to generated gradient id "
        "numbering, order inside defs and 1.5e-6 on gradient parameters. Non-trivial = distinct pairs where both convert and >= 1 item was "
        "inserted inside a group, defs, gradient or clipPath."
    )
    assumptions = ("equivalence per ref/xmlcanon.equivalent; noise is inserted only where the element is legal (no <g> inside clipPath or gradients)",)
    anchors = (
        ("picosvg.svg", "SVG.remove_nonsvg_content"),
        ("picosvg.svg", "SVG.remove_processing_instructions"),
        ("picosvg.svg", "SVG.remove_anonymous_symbols"),
        ("picosvg.svg", "SVG.remove_title_meta_desc"),
        ("picosvg.svg", "SVG.fromstring"),
        ("picosvg.svg", "_is_redundant"),
        ("picosvg.svg", "_is_removable_group"),
    )
    nt_floor = {"quick": 300, "thorough": 6000}
    feature_floors = {"noise_comment": 50, "noise_pi": 50, "noise_wrapper_g": 50, "noise_foreign_attr": 50, "noise_foreign_el": 50,
                      "noise_anon_symbol": 50, "noise_whitespace": 50, "noise_title": 30, "noise_metadata": 30, "compared_with_drop_unsupported": 200}
    time_budget = {"quick": 150, "thorough": 1200}

    def cases(self, tier, seed):
        n = 40 if tier == "quick" else 900
        cs = [("gen", seed, k, 30) for k in range(n)]
        files = corpus.files()
        for i in range(0, len(files), 20):
            cs.append(("corpus", i, min(len(files), i + 20)))
        return cs

    def setup_worker(self, tier, seed):
        pass

    @staticmethod
    def _inline_templates(root):
        """Intervention for the known gradient-template-order mechanism: resolve every href
        between gradients in the *source* the way the paint-server-template rules say
        (specified attribute strings and stops are copied when absent), so the conversion no
        longer has to.  Returns None when the document has no gradient templates."""
        r = root.copy()
        grads = {n.attrs["id"]: n for n in r.iter() if n.kind == "el" and n.tag.endswith("Gradient") and "id" in n.attrs}
        lin = ("x1", "y1", "x2", "y2")
        rad = ("cx", "cy", "r", "fx", "fy", "fr")
        common = ("gradientUnits", "gradientTransform", "spreadMethod")
        hit = False

        def resolve(n, depth=0):
            nonlocal hit
            h = n.attrs.get("xlink:href")
            if not h or depth > 8:
                return
            t = grads.get(h[1:])
            if t is None:
                return
            resolve(t, depth + 1)
            own = lin if n.tag == "linearGradient" else rad
            for k, v in t.attrs.items():
                if k not in n.attrs and (k in common or (k in own and t.tag == n.tag)):
                    n.attrs[k] = v
            if not any(c.kind == "el" and c.tag == "stop" for c in n.children):
                n.children.extend(c.copy() for c in t.children if c.kind == "el" and c.tag == "stop")
            del n.attrs["xlink:href"]
            hit = True

        for n in list(grads.values()):
            resolve(n)
        return r if hit else None

    def compare(self, res, d0, d1, what, deep, roots=None, opts=None):
        res["evals"] += 1
        nd = 3
        opts = opts or {}
        if opts.get("drop_unsupported"):
            bump(res["features"], "compared_with_drop_unsupported")
        if opts.get("allow_text"):
            bump(res["features"], "compared_with_allow_text")
        s0, o0 = conv.convert(d0, ndigits=nd, **opts)
        s1, o1 = conv.convert(d1, ndigits=nd, **opts)
        rp = {"kind": "pair", "d0": d0, "d1": d1, "opts": opts}
        what = what + (f" {opts}" if opts else "")
        if s0 != s1:
            who = "the noisy document" if s1 == "exc" else "the clean document"
            e = o1 if s1 == "exc" else o0
            res["viol"].append(dict(rule="one_raises", sig="one_raises:" + type(e).__name__,
                                    msg=f"[{what}] only {who} fails to convert: {type(e).__name__}: {str(e)[:200]}\nCLEAN: {d0[:2500]}\nNOISY: {d1[:2500]}", replay=rp))
            return
        if s0 == "exc":
            bump(res["counters"], "both_raise")
            return
        try:
            ok, why = xmlcanon.equivalent(o0, o1)
        except Exception as e:
            res["viol"].append(dict(rule="unparsable_output", sig="unparsable_output", msg=repr(e), replay=rp))
            return
        if not ok:
            mech = None
            if roots is not None:
                a, b = self._inline_templates(roots[0]), self._inline_templates(roots[1])
                if a is not None and b is not None:
                    sa, oa = conv.convert(gd.to_xml(a), ndigits=nd, **opts)
                    sb, ob = conv.convert(gd.to_xml(b), ndigits=nd, **opts)
                    try:
                        if sa == sb == "ok" and xmlcanon.equivalent(oa, ob)[0]:
                            mech = "gradient-template-order"
                    except Exception:
                        pass
            res["viol"].append(dict(rule="noise_changes_output", sig="noise_changes_output" + (f":{mech}" if mech else ""), mech=mech,
                                    msg=f"[{what}] {why}\nCLEAN: {d0[:2500]}\nNOISY: {d1[:2500]}\nOUT(clean): {o0[:1200]}\nOUT(noisy): {o1[:1200]}", replay=rp))
            return
        bump(res["counters"], "equivalent")
        if deep:
            res["nt"].append(h8(d1))
        if res["sample"] is None and deep:
            res["sample"] = {"noise": what, "noisy_source": d1[:1200]}

    def run_case(self, case):
        kind = case[0]
        res = new_result()
        if kind == "gen":
            _, seed, k, n = case
            rng = random.Random(f"C14-{seed}-{k}")
            for i in range(n):
                kk = rng.random()
                if kk < 0.5:
                    text, f, root, meta = gd.mixed_doc(rng, unsupported=False, noise=False)
                elif kk < 0.7:
                    text, f, root = gd.gradient_doc(rng)
                elif kk < 0.85:
                    text, f, root = gd.paint_doc(rng)
                else:
                    text, f, root = gd.clipped(rng)
                g = gd.Gen(rng)
                noisy = root.copy()
                noisy.attrs.update(gd.FOREIGN_NS)
                done = gd.insert_noise(g, rng, noisy, rng.randint(1, 12))
                for kk2, v in g.f.items():
                    bump(res["features"], kk2, v)
                d1 = gd.to_xml(noisy)
                if rng.random() < 0.3:
                    d1 = '<?xml version="1.0" encoding="UTF-8"?>\n' + d1
                    bump(res["features"], "noise_xml_declaration")
                if rng.random() < 0.3:
                    d1 = gd.to_xml(noisy, ws=rng.choice(("\n", "\n  ", " ")))
                    bump(res["features"], "noise_pretty_whitespace")
                deep = any(h in ("g", "defs", "clipPath", "linearGradient", "radialGradient") for _, h in done)
                # the options of the conversion: noise must be irrelevant under each of them
                ko = rng.random()
                opts = {"drop_unsupported": True} if ko < 0.3 else {"allow_text": True} if ko < 0.4 else {"drop_unsupported": True, "allow_text": True} if ko < 0.45 else None
                self.compare(res, text, d1, ",".join(sorted({k for k, _ in done})), deep, roots=(root, noisy), opts=opts)
        else:
            _, a, b = case
            rng = random.Random(f"C14-corpus-{a}")
            for path in corpus.files()[a:b]:
                d0 = open(path).read()
                try:
                    stripped, n = strip_noise_text(d0)
                except Exception:
                    continue
                bump(res["features"], "corpus_files")
                if n:
                    bump(res["features"], "corpus_noise_removed", n)
                    self.compare(res, stripped, d0, "removal of existing noise", True)
                # insertion at the text level: comment / PI / title right after the root start tag
                m = re.search(r"<svg\b[^>]*>", d0)
                if m and not d0[m.start():m.end()].endswith("/>"):
                    ins = rng.choice(("<!-- c -->", "<?pi data?>", "<title>t</title>", "<desc>d</desc>", "<metadata><x xmlns='urn:x'/></metadata>", "\n\n   "))
                    d1 = d0[: m.end()] + ins + d0[m.end():]
                    bump(res["features"], "corpus_noise_inserted")
                    self.compare(res, d0, d1, "text-level insertion " + ins[:10], False)
        for ev in events.drain():
            pass
        return res

    def replay(self, rp):
        res = new_result()
        self.compare(res, rp["d0"], rp["d1"], "replay", True, opts=rp.get("opts"))
        return res["viol"]
