"""C20 - a reported reuse transform really maps one shape onto the other."""
import math
import random

from picomon import events
from picomon.driver import Driver, new_result, bump
from picomon.gen import paths as gp
from picomon.monitors import reusemon
from picomon.ref import pathgrammar as G


def _map(T, p):
    return (T[0] * p[0] + T[2] * p[1] + T[4], T[1] * p[0] + T[3] * p[1] + T[5])


def rand_T(rng, kind):
    tx, ty = round(rng.uniform(-50, 50), 1), round(rng.uniform(-50, 50), 1)
    if kind == "translate":
        return (1.0, 0.0, 0.0, 1.0, tx, ty)
    if kind == "rotate":
        a = rng.choice((rng.uniform(-math.pi, math.pi), math.radians(rng.choice((30, 45, 60, 90, 135, 180)))))
        return (math.cos(a), math.sin(a), -math.sin(a), math.cos(a), tx, ty)
    if kind == "uniform":
        s = rng.choice((0.5, 2.0, 3.0, rng.uniform(0.2, 4)))
        return (s, 0.0, 0.0, s, tx, ty)
    if kind == "nonuniform":
        return (rng.uniform(0.3, 3), 0.0, 0.0, rng.uniform(0.3, 3), tx, ty)
    if kind == "mirror":
        return rng.choice(((-1.0, 0.0, 0.0, 1.0, tx, ty), (1.0, 0.0, 0.0, -1.0, tx, ty), (0.0, 1.0, 1.0, 0.0, tx, ty)))
    if kind == "rotscale":
        a = rng.uniform(-math.pi, math.pi)
        sx, sy = rng.uniform(0.4, 2.5), rng.uniform(0.4, 2.5)
        # rotate(a) . scale(sx, sy)
        return (sx * math.cos(a), sx * math.sin(a), -sy * math.sin(a), sy * math.cos(a), tx, ty)
    # general
    while True:
        m = (rng.uniform(-2, 2), rng.uniform(-2, 2), rng.uniform(-2, 2), rng.uniform(-2, 2), tx, ty)
        if abs(m[0] * m[3] - m[1] * m[2]) > 0.3:
            return m


def rand_shape_cmds(rng):
    """Absolute/relative path commands without arcs (arcs are handled per transform kind)."""
    n = rng.randint(3, 8)
    letters = "LlLlHhVvCcQqSsTt"
    k = rng.random()
    if k < 0.35:
        letters = "Ll"
    elif k < 0.5:
        letters = "LlHhVv"
    first = rng.choice("Mm")
    if rng.random() < 0.5:
        # integer lattice, axis aligned bits
        cmds = [(first, (float(rng.randint(-20, 20)), float(rng.randint(-20, 20))))]
        for _ in range(n):
            c = rng.choice(letters)
            cmds.append((c, tuple(float(rng.randint(-15, 15)) for _ in range(gp.ARITY[c.lower()]))))
    else:
        cmds = [(first, (round(rng.uniform(-50, 50), 2), round(rng.uniform(-50, 50), 2)))]
        for _ in range(n):
            c = rng.choice(letters)
            cmds.append((c, tuple(round(rng.uniform(-30, 30), 2) for _ in range(gp.ARITY[c.lower()]))))
    if rng.random() < 0.7:
        cmds.append((rng.choice("Zz"), ()))
    return cmds


def transform_cmds(cmds, T, rng, perturb=None):
    """Reference application of T to a path: interpret to absolute tokens, map the points,
    emit absolute (or relative) explicit commands.  perturb=(index, delta) offsets one coordinate."""
    toks = reusemon.tokens(cmds)
    out = []
    rel = rng.random() < 0.4
    cur = (0.0, 0.0)
    flat_idx = 0
    for i, t in enumerate(toks):
        k = t[0]
        if k == "Z":
            out.append(("z" if rel else "Z", ()))
            cur = _map(T, t[2])
            continue
        pts = [_map(T, p) for p in t[2:]] if k != "M" else [_map(T, t[2])]
        pts = [list(p) for p in pts]
        if perturb is not None:
            for p in pts:
                for j in (0, 1):
                    if flat_idx == perturb[0]:
                        p[j] += perturb[1]
                    flat_idx += 1
        use_rel = rel and i > 0
        ox, oy = cur if use_rel else (0.0, 0.0)
        args = []
        for p in pts:
            args += [p[0] - ox, p[1] - oy]
        letter = k.lower() if use_rel else k
        out.append((letter, tuple(args)))
        cur = tuple(pts[-1])
    return out, flat_idx


class D(Driver):
    pid = "C20"
    rule = (
        "cases: pairs (s, T(s)) with T over translations, rotations, uniform/non-uniform scalings, mirrorings, rotate*scale and general "
        "affine maps applied by the reference to random polygon/curve paths (absolute and relative data, H/V/S/T shorthand) and to basic "
        "shapes (translations, uniform scales); identical pairs; unrelated pairs; near-miss pairs (one coordinate of T(s) off by 1.05-3x "
        "tolerance, one command letter changed, one extra command); tolerances 1e-3..1. Every call of the real affine_between is judged: "
        "a reported transform must map s1 onto s2 command for command within tolerance. Non-trivial = distinct pairs for which a "
        "non-identity transform was reported and verified, plus distinct near-miss pairs judged."
    )
    assumptions = ("reference application of the transform to the outline: reusemon.tokens/verify (independent of svg_reuse); arcs compared as point sets",)
    anchors = (
        ("picosvg.svg_reuse", "affine_between"),
        ("picosvg.svg_reuse", "_try_affine"),
        ("picosvg.svg_reuse", "_apply_affine"),
        ("picosvg.svg_reuse", "_affine_callback"),
        ("picosvg.svg_reuse", "_round"),
        ("picosvg.svg_reuse", "_first_significant"),
        ("picosvg.svg_reuse", "_first_significant_for_both"),
        ("picosvg.svg_reuse", "_vectors"),
        ("picosvg.svg_types", "SVGShape.almost_equals"),
    )
    deciding_monitors = ("affine_between",)
    feature_floors = {"affine_between.ok": 400}
    nt_floor = {"quick": 500, "thorough": 8000}
    time_budget = {"quick": 120, "thorough": 900}

    def cases(self, tier, seed):
        n = 48 if tier == "quick" else 800
        return [("pairs", seed, k, 60) for k in range(n)]

    def setup_worker(self, tier, seed):
        reusemon.install()
        from picosvg import svg_reuse as R, svg_types as T

        self.R, self.T = R, T

    def _call(self, res, s1, s2, tol, feat):
        res["evals"] += 1
        bump(res["features"], feat)
        try:
            r = self.R.affine_between(s1, s2, tol)
        except Exception as e:
            if events.is_harness_exc(e):
                raise
            bump(res["counters"], f"exception.{type(e).__name__}")
            return "exc"
        bump(res["counters"], f"{feat}.{'none' if r is None else 'reported'}")
        return r

    def run_case(self, case):
        _, seed, k, n = case
        rng = random.Random(f"C20-{seed}-{k}")
        res = new_result()
        P = self.T.SVGPath
        for i in range(n):
            tol = rng.choice((1e-3, 1e-2, 0.05, 0.1, 0.5, 1.0))
            kind = rng.choice(("translate", "translate", "rotate", "uniform", "nonuniform", "mirror", "rotscale", "general"))
            Tm = rand_T(rng, kind)
            cmds = rand_shape_cmds(rng)
            if rng.random() < 0.1:
                # the same shapes far from the origin (1e6 .. 1e10 units): absolute tolerances must stay absolute
                big = 10.0 ** rng.uniform(6, 10) * rng.choice((-1, 1))
                cmds, _ = transform_cmds(cmds, (1.0, 0.0, 0.0, 1.0, big, big * rng.uniform(0.3, 1.0)), random.Random(rng.random()))
                bump(res["features"], "far_from_origin")
                if kind not in ("translate", "rotate"):
                    kind = rng.choice(("translate", "rotate"))
                    Tm = rand_T(rng, kind)
            d1 = gp.render(cmds)
            s1 = P(d=d1)
            c2, ncoord = transform_cmds(cmds, Tm, rng)
            s2 = P(d=gp.render(c2))
            mode = rng.random()
            if mode < 0.45:
                r = self._call(res, s1, s2, tol, "exact." + kind)
                if kind == "translate" and r is None:
                    res["viol"].append(dict(rule="translation_not_found", sig="translation_not_found",
                                            msg=f"s2 is an exact translation of s1 by {Tm[4:]}, but affine_between returned None (tol={tol})\n s1={s1.d!r}\n s2={s2.d!r}",
                                            replay={"kind": "pair", "d1": s1.d, "d2": s2.d, "tolerance": tol}))
                if res["sample"] is None and r not in (None, "exc") and kind == "general":
                    res["sample"] = {"s1": s1.d, "s2": s2.d, "tolerance": tol, "reported": list(r)}
            elif mode < 0.55:
                s2 = P(d=d1) if rng.random() < 0.5 else s1
                r = self._call(res, s1, s2, tol, "identical")
                if r is not None and r != "exc" and tuple(r) != (1, 0, 0, 1, 0, 0):
                    res["viol"].append(dict(rule="identical_not_identity", sig="identical_not_identity",
                                            msg=f"identical shapes gave {tuple(r)}", replay={"kind": "pair", "d1": s1.d, "d2": s2.d, "tolerance": tol}))
            elif mode < 0.85:
                # near miss: one coordinate of T(s) off by 1.05..3 x tolerance
                idx = rng.randrange(2, max(3, ncoord))
                delta = rng.choice((-1, 1)) * rng.uniform(1.05, 3.0) * tol
                c3, _ = transform_cmds(cmds, Tm, random.Random(rng.random()), perturb=(idx, delta))
                s3 = P(d=gp.render(c3))
                self._call(res, s1, s3, tol, "nearmiss." + kind)
                events.NT.add(hash(("nm", d1, idx, delta, tol)) & 0xFFFFFFFFFF)
            elif mode < 0.92:
                other = rand_shape_cmds(rng)
                self._call(res, s1, P(d=gp.render(other)), tol, "unrelated")
            else:
                # structure change: extra command or changed letter
                c4 = list(c2)
                j = rng.randrange(1, len(c4))
                if rng.random() < 0.5:
                    c4.insert(j, ("l", (tol * 2, 0.0)))
                elif c4[j][0] in "Ll":
                    c4[j] = ("Q" if c4[j][0] == "L" else "q", c4[j][1] + c4[j][1])
                self._call(res, s1, P(d=gp.render(c4)), tol, "structure_change")
        # basic shapes (arcs): translations and uniform scales of rect / circle / ellipse
        T = self.T
        for i in range(10):
            tol = rng.choice((1e-3, 1e-2, 0.1))
            dx, dy = float(rng.randint(-30, 30)), float(rng.randint(-30, 30))
            k2 = rng.random()
            if k2 < 0.35:
                a = dict(x=float(rng.randint(0, 20)), y=float(rng.randint(0, 20)), width=float(rng.randint(2, 30)), height=float(rng.randint(2, 30)))
                if rng.random() < 0.6:
                    a["rx"] = float(rng.randint(1, 5))
                s1 = T.SVGRect(**a)
                b = dict(a)
                b["x"] += dx
                b["y"] += dy
                s2 = T.SVGRect(**b)
            elif k2 < 0.7:
                a = dict(cx=float(rng.randint(0, 20)), cy=float(rng.randint(0, 20)), r=float(rng.randint(1, 20)))
                s1 = T.SVGCircle(**a)
                s = rng.choice((1.0, 2.0, 0.5))
                s2 = T.SVGCircle(cx=a["cx"] * s + dx, cy=a["cy"] * s + dy, r=a["r"] * s)
            else:
                a = dict(cx=float(rng.randint(0, 20)), cy=float(rng.randint(0, 20)), rx=float(rng.randint(1, 20)), ry=float(rng.randint(1, 20)))
                s1 = T.SVGEllipse(**a)
                s2 = T.SVGEllipse(cx=a["cx"] + dx, cy=a["cy"] + dy, rx=a["rx"] + (0 if rng.random() < 0.7 else 3 * tol), ry=a["ry"])
            self._call(res, s1, s2, tol, "basic_shapes")
        for ev in events.drain():
            res["viol"].append(dict(rule=ev["rule"], sig=ev["sig"], mech=ev.get("mech"), msg=ev["msg"], replay=ev.get("replay")))
        for kk, v in events.take_counts().items():
            bump(res["counters"], kk, v)
        res["nt"] = events.take_nt()
        return res

    def replay(self, rp):
        P = self.T.SVGPath
        try:
            r = self.R.affine_between(P(d=rp["d1"]), P(d=rp["d2"]), rp["tolerance"])
        except Exception:
            r = "exc"
        return [dict(rule=ev["rule"], msg=ev["msg"]) for ev in events.drain()]
