"""C05 - every output path carries the paint and opacity the SVG cascade assigns."""
import random

from picomon import conv
from picomon.driver import bump
from picomon.drivers.renderbase import RenderDriver
from picomon.gen import docs as gd
from picomon.ref import render as RR


def simulate(root, mech):
    """Source transformation that reproduces a known mechanism in the reference model."""
    r = root.copy()
    if mech == "explicit-equal-inherited-dropped-on-use":
        gd.sanitize_redundant_explicit(r)
    elif mech == "root-opacity-dropped":
        gd._del_prop(r, "opacity")
    return gd.to_xml(r)


class D(RenderDriver):
    pid = "C05"
    mode = "color"
    ndigits_choices = (3, 3, 6)
    rule = (
        "cases: documents whose root, groups (depth <= 3), use elements and shapes set random subsets of fill, fill-rule, fill-opacity, "
        "opacity and display as attribute, as style declaration, or both with different values (style must win); explicit default values "
        "under non-default ancestors; translucent groups with overlapping / single / nested children, opacity 0 and 1 groups; transparent "
        "and paintless shapes; display:none subtrees. The composited RGBA of source and output (reference renderer with group-opacity "
        "compositing) must agree within 4e-3 (ndigits 3) at every retained point. Sub-workloads plant the two known-finding classes "
        "(root opacity; explicit value equal to the inherited one inside a use target). Non-trivial = distinct documents with >= 10 "
        "retained non-empty points."
    )
    assumptions = ("reference cascade ref/cascade.py + compositing in ref/render.py; 'inherit', currentColor, strokes not generated here",)
    anchors = (
        ("picosvg.svg", "_inherit_attrib"),
        ("picosvg.svg", "_inherit_copy"),
        ("picosvg.svg", "_inherit_multiply"),
        ("picosvg.svg", "_inherit_nondefault_display"),
        ("picosvg.svg", "_attrib_to_pass_on"),
        ("picosvg.svg", "_is_removable_group"),
        ("picosvg.svg", "_try_remove_group"),
        ("picosvg.svg", "SVG.apply_style_attributes"),
        ("picosvg.svg_types", "SVGShape.apply_style_attribute"),
        ("picosvg.svg_meta", "parse_css_declarations"),
        ("picosvg.svg", "to_element"),
        ("picosvg.svg_types", "SVGShape.normalize_opacity"),
        ("picosvg.svg_types", "SVGShape.might_paint"),
    )
    nt_floor = {"quick": 150, "thorough": 4000}
    feature_floors = {"judged.prop_attr": 900, "judged.prop_style": 550, "judged.prop_both": 380, "judged.translucent_group_overlap": 140, "judged.nested_translucent": 50, "judged.nested_translucent_with_sibling": 30, "judged.use": 70, "judged.root_paint": 45, "judged.opacity_out_of_range": 35, "prop_attr": 300, "prop_style": 200, "prop_both": 100, "translucent_group_overlap": 100, "nested_translucent": 30, "use": 100, "root_paint": 50}

    def gen_doc(self, rng):
        k = rng.random()
        if k < 0.06:
            text, f, root = gd.paint_doc(rng, root_opacity=True, max_depth=2)
            return text, f, {"root": root, "class": "root_opacity"}
        if k < 0.10:
            text, f, root = gd.redundant_doc(rng)
            return text, f, {"root": root, "class": "redundant"}
        if k < 0.13:
            text, f, root = gd.paint_doc(rng, allow_redundant=True, max_depth=2)
            return text, f, {"root": root, "class": "redundant"}
        text, f, root = gd.paint_doc(rng, max_depth=rng.choice((2, 3)))
        return text, f, {"root": root, "class": "main"}

    def is_nontrivial(self, st, feats, meta):
        return st["nonempty"] >= 10

    def check_doc(self, doc, res, rng, feats=None, meta=None, ndigits=3):
        r = super().check_doc(doc, res, rng, feats, meta, ndigits=ndigits)
        if r:
            # "fill-opacity ... multiply into the path's opacity": no separate fill-/stroke-opacity is left on an output path
            import re

            bump(res["counters"], "outputs_checked_for_merged_opacity")
            for m in re.finditer(r"<path\b[^>]*>", r[1]):
                mm = re.search(r'\b(fill-opacity|stroke-opacity)="([^"]*)"', m.group(0))
                if mm and mm.group(2) not in ("1", "1.0"):
                    res["viol"].append(dict(rule="opacity_not_merged", sig="opacity_not_merged",
                                            msg=f"output path keeps {mm.group(0)} instead of multiplying it into its opacity: {m.group(0)[:200]}\nSOURCE: {doc}",
                                            replay={"kind": "doc", "doc": doc, "ndigits": ndigits}))
                    break
        return r

    def classify(self, doc, out, mismatch, meta):
        eng = self.engine_fault(doc, out)
        if eng:
            return eng
        if not meta:
            try:
                meta = {"root": gd.from_xml(doc)}
            except Exception:
                return None
        root = meta["root"]
        sim0 = None
        try:
            sim0 = gd.simulate_inherited_made_explicit(root)
            if sim0 is not None:
                ssrc, sdst = RR.build(gd.to_xml(sim0)), RR.build(out)
                eps = self.eps_frac * 100
                pts = conv.sample_points(ssrc, random.Random(1), eps=eps) + [mismatch[0]]
                st = conv.compare_colors(ssrc, sdst, pts, eps, self.color_tol)
                if st["mismatch"] is None and st["kept"] >= 30:
                    return "inherited-value-made-explicit-on-use-target"
        except Exception:
            pass
        # the known mechanisms one by one, then on top of the inherited-made-explicit simulation (two of them can act
        # on one document; the output must then match the source with both simulated)
        bases = [(root, None)]
        try:
            if sim0 is not None:
                bases.append((sim0, "inherited-value-made-explicit-on-use-target"))
        except NameError:
            pass
        for base, base_mech in bases:
            for mech in ("root-opacity-dropped", "explicit-equal-inherited-dropped-on-use"):
                if mech == "root-opacity-dropped" and "opacity" not in gd.own_props(base):
                    continue
                if mech.startswith("explicit") and not gd.redundant_explicit(base):
                    continue
                try:
                    sim = RR.build(simulate(base, mech))
                    dst = RR.build(out)
                    rng = random.Random(1)
                    eps = self.eps_frac * 100
                    pts = conv.sample_points(sim, rng, eps=eps) + [mismatch[0]]
                    st = conv.compare_colors(sim, dst, pts, eps, self.color_tol)
                    if st["mismatch"] is None and st["kept"] >= 30:
                        return base_mech or mech
                except Exception:
                    continue
        return None
