"""C12 - arc-to-cubic conversion tracks the true elliptical arc."""
import math
import random

from picomon import events
from picomon.driver import Driver, new_result, bump
from picomon.monitors import arcmon, rewritemon
from picomon.gen import paths as gp


def logu(rng, lo, hi):
    return math.exp(rng.uniform(math.log(lo), math.log(hi)))


class D(Driver):
    pid = "C12"
    rule = (
        "cases: direct calls of arc_to_cubic with coordinates/radii log-uniform over 1e-3..1e5, rotations -400..400 deg, all four flag "
        "pairs, radii too small by factors 1.0000001..100, exactly fitting radii, half circles, nearly coincident end points, negative and "
        "zero radii, coincident end points; plus relative/absolute arcs inside paths through SVGPath.arcs_to_cubics after every command "
        "type. Non-trivial = distinct argument tuples that produced >= 1 cubic and were judged against the reference ellipse."
    )
    assumptions = ("reference: SVG implementation notes F.6.5/F.6.6 (ref/pathgeom.arc_center); 33 samples per cubic in the unit-circle frame",)
    anchors = (
        ("picosvg.arc_to_cubic", "EllipticalArc.correct_out_of_range_radii"),
        ("picosvg.arc_to_cubic", "EllipticalArc.end_to_center_parametrization"),
        ("picosvg.arc_to_cubic", "_arc_to_cubic"),
        ("picosvg.arc_to_cubic", "arc_to_cubic"),
        ("picosvg.svg_types", "SVGPath.arcs_to_cubics"),
    )
    deciding_monitors = ("arc_to_cubic",)
    nt_floor = {"quick": 3000, "thorough": 50000}
    feature_floors = {"arc_to_cubic.nseg1": 50, "arc_to_cubic.nseg2": 50, "arc_to_cubic.nseg3": 50, "arc_to_cubic.nseg4": 50,
                      "arc_to_cubic.radii_corrected": 100, "arc_to_cubic.line": 20, "arc_to_cubic.zero_length": 20}
    time_budget = {"quick": 90, "thorough": 600}

    def cases(self, tier, seed):
        n = 32 if tier == "quick" else 480
        cs = [("direct", seed, k, 600) for k in range(n)] + [("inpath", seed, k, 150) for k in range(n // 4)]
        from picomon.gen import corpus as _corpus

        _nf = len(_corpus.files())
        for _i in range(0, _nf, 12 if tier == "thorough" else 60):
            cs.append(("pipeline", _i, min(_nf, _i + 12)))
        return cs

    def setup_worker(self, tier, seed):
        arcmon.install()
        rewritemon.install(methods=("arcs_to_cubics",))
        from picosvg import arc_to_cubic as M
        from picosvg.svg_types import SVGPath

        self.M = M
        self.SVGPath = SVGPath

    def _arc(self, rng):
        mag = rng.choice((1.0, 1.0, 10.0, 100.0, 1e3, 1e-2, 1e4))
        sx, sy = rng.uniform(-mag, mag), rng.uniform(-mag, mag)
        k = rng.random()
        rot = rng.choice((0.0, 0.0, 30.0, 45.0, 90.0, -90.0, 180.0, 360.0, -400.0, 400.0)) if rng.random() < 0.5 else rng.uniform(-400, 400)
        large, sweep = rng.randint(0, 1), rng.randint(0, 1)
        rx, ry = logu(rng, 1e-3, 1e5), logu(rng, 1e-3, 1e5)
        if rng.random() < 0.5:
            rx, ry = logu(rng, 0.1, 10) * mag, logu(rng, 0.1, 10) * mag
        ex, ey = sx + rng.uniform(-mag, mag), sy + rng.uniform(-mag, mag)
        feat = "general"
        if k < 0.08:
            ex, ey = sx, sy
            feat = "coincident"
        elif k < 0.14:
            if rng.random() < 0.5:
                rx = 0.0
            else:
                ry = 0.0
            feat = "zero_radius"
        elif k < 0.20:
            rx, ry = -rx, -ry
            feat = "both_negative"
        elif k < 0.24:
            if rng.random() < 0.5:
                rx = -rx
            else:
                ry = -ry
            feat = "one_negative"
        elif k < 0.40:
            # radii too small by a factor f: scale a fitting ellipse down
            d = math.hypot(ex - sx, ey - sy) / 2
            f = rng.choice((1.0000001, 1.001, 1.5, 3.0, 100.0))
            rx = ry = d / f
            if rng.random() < 0.5:
                ry = rx * rng.uniform(0.3, 3)
            feat = "too_small"
        elif k < 0.48:
            d = math.hypot(ex - sx, ey - sy) / 2
            rx = ry = d  # exactly fitting: half circle
            rot = 0.0 if rng.random() < 0.5 else rot
            feat = "exact_fit"
        elif k < 0.54:
            eps = mag * 10.0 ** rng.uniform(-9, -4)
            ex, ey = sx + eps, sy - eps
            rx, ry = logu(rng, 0.5, 2) * mag, logu(rng, 0.5, 2) * mag
            feat = "nearly_coincident"
        elif k < 0.60:
            sx, sy, ex, ey = (float(round(v)) for v in (sx, sy, ex, ey))
            rx, ry = float(rng.randint(1, 20)), float(rng.randint(1, 20))
            feat = "integer"
        return feat, ((sx, sy), rx, ry, rot, large, sweep, (ex, ey))

    def run_case(self, case):
        if case[0] == "pipeline":
            from picomon import conv as _conv
            from picomon.gen import corpus as _corpus

            res = new_result()
            arcmon.STATE["seen"] = set()
            for _f in _corpus.files()[case[1]:case[2]]:
                _conv.convert(open(_f).read())
                res["evals"] += 1
                bump(res["features"], "pipeline_documents")
            arcmon.STATE["seen"] = None
            kind = "pipeline"
        else:
            kind, seed, k, n = case
            rng = random.Random(f"C12-{kind}-{seed}-{k}")
            res = new_result()
        if kind == "pipeline":
            pass
        elif kind == "direct":
            for _ in range(n):
                feat, a = self._arc(rng)
                bump(res["features"], feat)
                res["evals"] += 1
                try:
                    if rng.random() < 0.5:
                        list(self.M.arc_to_cubic(*a))
                    else:
                        from picosvg.geometric_types import Point

                        list(self.M.arc_to_cubic(Point(*a[0]), *a[1:6], Point(*a[6])))
                except Exception as e:
                    if events.is_harness_exc(e):
                        raise
                    bump(res["counters"], "exception." + type(e).__name__)
                    if not isinstance(e, (ValueError, ZeroDivisionError, OverflowError)):
                        res["viol"].append(dict(rule="crash", sig=f"crash:arc_to_cubic:{type(e).__name__}", msg=f"arc_to_cubic{a} raised {type(e).__name__}: {e}",
                                                replay={"kind": "arc", "args": a, "d": None}))
                if res["sample"] is None and feat == "too_small":
                    res["sample"] = {"arc_to_cubic_args": a}
        else:
            for _ in range(n):
                cmds = [("M", (rng.uniform(-50, 50), rng.uniform(-50, 50)))]
                for _ in range(rng.randint(1, 6)):
                    c = rng.choice(gp.ALL20)
                    if c not in "zZ":
                        cmds.append((c, gp.rand_args(rng, c, 50.0)))
                    else:
                        cmds.append((c, ()))
                    arc = rng.choice("aA")
                    cmds.append((arc, gp.rand_args(rng, arc, 50.0)))
                d = gp.render(cmds, rng)
                res["evals"] += 1
                bump(res["features"], "path_with_arcs")
                try:
                    self.SVGPath(d=d).arcs_to_cubics()
                except ValueError:
                    bump(res["counters"], "rejected")
                except Exception as e:
                    if events.is_harness_exc(e):
                        raise
        for ev in events.drain():
            if ev["monitor"] == "rewrite" and ev.get("mech") == "shorthand-after-converted-arc":
                continue  # C09's finding about the path-level wrapper, not an arc conversion error
            res["viol"].append(dict(rule=ev["rule"], sig=ev["sig"], mech=ev.get("mech"), msg=ev["msg"],
                                    replay={"kind": "arc", "args": ev.get("args"), "d": ev.get("d")}))
        for kk, v in events.take_counts().items():
            bump(res["features"], kk, v)
        res["nt"] = events.take_nt()
        return res

    def replay(self, rp):
        res = new_result()
        if rp.get("args"):
            a = rp["args"]
            try:
                list(self.M.arc_to_cubic(tuple(a[0]), *a[1:6], tuple(a[6])))
            except Exception:
                pass
        elif rp.get("d"):
            try:
                self.SVGPath(d=rp["d"]).arcs_to_cubics()
            except Exception:
                pass
        return [dict(rule=ev["rule"], mech=ev.get("mech"), msg=ev["msg"]) for ev in events.drain()]
