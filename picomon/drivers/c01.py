"""C01 - conversion output always conforms to the documented picosvg grammar."""
import os
import random
import subprocess
import sys
import tempfile

from picomon import bootstrap, conv, events
from picomon.driver import Driver, new_result, bump, h8
from picomon.gen import docs as gd, corpus
from picomon.monitors import stagemon
from picomon.ref import picogrammar as PGm


def group_rules_only(errs):
    return errs and all(r in ("group_children",) for r, _ in errs)


class D(Driver):
    pid = "C01"
    rule = (
        "cases: generated documents mixing every supported feature (structure, clips, strokes, cascade, gradients, nested svg, use) with "
        "unsupported elements (filter, mask, image, text, style, symbol, marker, pattern, foreignObject, a, switch, script, animate), noise "
        "(comments, PIs, title/desc/metadata, foreign namespaces, anonymous symbols, wrapper groups) and root presentation attributes, "
        "x ndigits 0..6 x allow_text x drop_unsupported; the SVG files under tests/ under all option combinations; a CLI slice "
        "(python -m picosvg.picosvg with --allow_text/--drop_unsupported/--clip_to_viewbox, stdin and file input, stdout and --output_file) whose output "
        "must also equal the library's. Every normal return is validated against the grammar by an independent validator over a stdlib "
        "XML parse that keeps comments and PIs. Non-trivial = distinct converted documents with >= 1 path and >= 1 of {group kept, gradient "
        "kept, text kept, unsupported element dropped}."
    )
    assumptions = ("ref/picogrammar.py is the statement of the grammar (DESIGN.md C01 rules 1-8); exceptions are C17's business except under drop_unsupported",)
    anchors = (
        ("picosvg.svg", "SVG.topicosvg"),
        ("picosvg.svg", "SVG.checkpicosvg"),
        ("picosvg.svg", "SVG._simplify"),
        ("picosvg.svg", "_try_remove_group"),
        ("picosvg.svg", "_is_removable_group"),
        ("picosvg.svg", "SVG.evenodd_to_nonzero_winding"),
        ("picosvg.svg", "SVG.normalize_opacity"),
        ("picosvg.svg", "SVG.remove_nonsvg_content"),
        ("picosvg.svg", "SVG.remove_title_meta_desc"),
        ("picosvg.svg_types", "SVGPath.expand_shorthand"),
        ("picosvg.svg_types", "SVGPath.absolute"),
        ("picosvg.svg_types", "SVGPath.round_floats"),
        ("picosvg.picosvg", "_run"),
    )
    optional_anchors = ("picosvg._run",)
    nt_floor = {"quick": 300, "thorough": 6000}
    feature_floors = {"cli_clip_outputs_judged": 4}
    time_budget = {"quick": 150, "thorough": 1200}
    use_reach = True

    def cases(self, tier, seed):
        n = 50 if tier == "quick" else 1200
        cs = [("gen", seed, k, 50) for k in range(n)]
        files = corpus.files()
        step = 6 if tier == "quick" else 1
        for i in range(0, len(files), 12):
            cs.append(("corpus", i, min(len(files), i + 12), step))
        for k in range(4 if tier == "quick" else 60):
            cs.append(("cli", seed, k, 10))
        return cs

    def setup_worker(self, tier, seed):
        stagemon.install()
        from picosvg.svg import SVG

        self.SVG = SVG

    # ------------------------------------------------------------
    def judge(self, res, doc, out, nd, at, du, meta=None, entry="library", replay_extra=None):
        errs = PGm.validate(out, nd, at)
        if not errs:
            has_path = "<path" in out
            extra = ("<g " in out) or ("Gradient" in out) or (at and "<text" in out) or (du and meta and meta.get("unsupported"))
            if has_path and extra:
                res["nt"].append(h8(out))
            bump(res["counters"], "grammar_ok")
            return
        rules = sorted({r for r, _ in errs})
        mech = None
        if group_rules_only(errs) and stagemon.LAST["before"] is not None and not stagemon.LAST.get("stroke_junk"):
            # known ordering mechanism: the groups were fine until unpainted shapes were pruned
            before_errs = [e for e in PGm.validate(stagemon.LAST["before"], 9, True) if e[0].startswith("group")]
            if not before_errs:
                mech = "group-emptied-by-late-pruning"
        res["viol"].append(dict(
            rule="grammar:" + ",".join(rules), sig="grammar:" + ",".join(rules) + (f":{mech}" if mech else ""), mech=mech,
            msg=f"[{entry} ndigits={nd} allow_text={at} drop_unsupported={du}] " + "; ".join(m for _, m in errs[:4]) + f"\nSOURCE: {doc[:3000]}\nOUTPUT: {out[:1500]}",
            replay=dict({"kind": "doc", "doc": doc, "ndigits": nd, "allow_text": at, "drop_unsupported": du}, **(replay_extra or {}))))

    def convert_and_judge(self, res, doc, nd, at, du, meta=None, root=None):
        res["evals"] += 1
        stagemon.reset()
        st, out = conv.convert(doc, ndigits=nd, allow_text=at, drop_unsupported=du)
        if st == "exc":
            bump(res["counters"], "exception." + type(out).__name__)
            msg = str(out)
            gate = [e for e in msg.split("Unable to convert to picosvg: ")[-1].split(",") if e.startswith(("BadElement", "MissingElement"))]
            # duplicate-id reports come through the same gate but have nothing to do with unsupported elements
            gate = [e for e in gate if "reuses id=" not in e]
            if du and gate:
                res["viol"].append(dict(rule="drop_unsupported_gate", sig="drop_unsupported_gate",
                                        msg=f"with drop_unsupported=True the final gate still failed: {msg[:300]}\nSOURCE: {doc[:2000]}",
                                        replay={"kind": "doc", "doc": doc, "ndigits": nd, "allow_text": at, "drop_unsupported": du}))
            elif du and root is not None and meta and meta.get("unsupported"):
                # differential form of rule 7: without its unsupported subtrees the document converts
                stripped = gd.to_xml(gd.strip_flagged(root))
                st2, out2 = conv.convert(stripped, ndigits=nd, allow_text=at, drop_unsupported=du)
                if st2 == "ok":
                    res["viol"].append(dict(rule="drop_unsupported_differential", sig="drop_unsupported_differential:" + type(out).__name__,
                                            msg=f"drop_unsupported=True fails with {type(out).__name__}: {msg[:200]} but the same document without its unsupported elements converts\nSOURCE: {doc[:2500]}",
                                            replay={"kind": "doc", "doc": doc, "ndigits": nd, "allow_text": at, "drop_unsupported": du}))
                else:
                    bump(res["counters"], "du_both_fail")
            return None
        self.judge(res, doc, out, nd, at, du, meta)
        return out

    def run_case(self, case):
        kind = case[0]
        res = new_result()
        if kind == "gen":
            _, seed, k, n = case
            rng = random.Random(f"C01-{seed}-{k}")
            for _ in range(n):
                at = rng.random() < 0.3
                text, f, root, meta = gd.mixed_doc(rng, text_only_unsupported=False)
                for kk, v in f.items():
                    bump(res["features"], kk, v)
                nd = rng.randint(0, 6)
                du = rng.random() < 0.5
                bump(res["features"], f"ndigits_{nd}")
                bump(res["features"], f"opts_at{int(at)}_du{int(du)}")
                out = self.convert_and_judge(res, text, nd, at, du, meta, root)
                if out and res["sample"] is None and "<g " in out:
                    res["sample"] = {"source": text[:1200], "ndigits": nd, "allow_text": at, "drop_unsupported": du, "output": out[:600]}
        elif kind == "corpus":
            _, a, b, step = case
            files = corpus.files()[a:b]
            combos = [(nd, at, du) for nd in range(0, 7) for at in (False, True) for du in (False, True)]
            for fi, path in enumerate(files):
                doc = open(path).read()
                for ci, (nd, at, du) in enumerate(combos):
                    if (ci + fi) % step:
                        continue
                    bump(res["features"], "corpus_conversions")
                    self.convert_and_judge(res, doc, nd, at, du)
        elif kind == "cli":
            _, seed, k, n = case
            rng = random.Random(f"C01-cli-{seed}-{k}")
            for _ in range(n):
                self._cli(rng, res)
        for ev in events.drain():
            pass
        return res

    def _cli(self, rng, res):
        at, du = rng.random() < 0.4, rng.random() < 0.5
        if rng.random() < 0.5:
            doc = open(rng.choice(corpus.files())).read()
            meta = None
        else:
            doc, f, root, meta = gd.mixed_doc(rng)
        use_stdin = rng.random() < 0.5
        use_outfile = rng.random() < 0.5
        env = dict(os.environ)
        env["PYTHONPATH"] = os.path.join(bootstrap.repo_root(), "src")
        env["PYTHONUTF8"] = "1"  # documents may carry non-ASCII ids whatever the locale of the sandbox
        tmp = tempfile.mkdtemp(prefix="picomon-cli-", dir=os.environ.get("VERIF_SCRATCH", "/var/tmp"))
        try:
            args = [sys.executable, "-m", "picosvg.picosvg"]
            if at:
                args.append("--allow_text")
            if du:
                args.append("--drop_unsupported")
            clip = rng.random() < 0.4
            if clip:
                # the CLI's own extra step: what it prints must still be a picosvg (numbers rounded, groups tidy)
                args.append("--clip_to_viewbox")
                bump(res["features"], "cli_runs_with_clip_to_viewbox")
            outp = os.path.join(tmp, "out.svg")
            if use_outfile:
                args += ["--output_file", outp]
            inp = None
            if not use_stdin:
                inf = os.path.join(tmp, "in.svg")
                with open(inf, "w", encoding="utf-8") as fh:
                    fh.write(doc)
                args.append(inf)
            else:
                inp = doc
            res["evals"] += 1
            bump(res["features"], "cli_runs")
            p = subprocess.run(args, input=inp, capture_output=True, text=True, encoding="utf-8", timeout=120, env=env)
            st, lib = "exc", None
            stagemon.reset()
            try:
                svg = self.SVG.fromstring(doc).topicosvg(allow_text=at, drop_unsupported=du)
                if clip:
                    svg.clip_to_viewbox(inplace=True)
                lib = svg.tostring(pretty_print=True)
                st = "ok"
            except Exception as e:
                if events.is_harness_exc(e):
                    raise
            if p.returncode != 0:
                bump(res["counters"], "cli_failed")
                if st == "ok":
                    res["viol"].append(dict(rule="cli_vs_library", sig="cli_fails_library_converts", msg=f"CLI {args[3:]} failed ({p.stderr[-300:]}) but the library converts\nSOURCE: {doc[:1500]}",
                                            replay={"kind": "doc", "doc": doc, "ndigits": 3, "allow_text": at, "drop_unsupported": du}))
                return
            out = open(outp, encoding="utf-8").read() if use_outfile else p.stdout
            if st != "ok":
                res["viol"].append(dict(rule="cli_vs_library", sig="cli_converts_library_fails", msg=f"CLI {args[3:]} succeeded but the library call raises\nSOURCE: {doc[:1500]}",
                                        replay={"kind": "doc", "doc": doc, "ndigits": 3, "allow_text": at, "drop_unsupported": du}))
                return
            if clip:
                # no byte comparison on this route (the CLI rounds after clipping); the printed document is
                # judged on its own by the grammar validator
                bump(res["features"], "cli_clip_outputs_judged")
                self.judge(res, doc, out, 3, at, du, meta, entry="CLI --clip_to_viewbox", replay_extra={"cli_clip": True})
                return
            if out.strip() != lib.strip():
                res["viol"].append(dict(rule="cli_vs_library", sig="cli_output_differs", msg=f"CLI {args[3:]} output differs from the library's tostring(pretty_print=True)\nCLI: {out[:600]}\nLIB: {lib[:600]}",
                                        replay={"kind": "doc", "doc": doc, "ndigits": 3, "allow_text": at, "drop_unsupported": du}))
                return
            # the CLI bytes equal the library's for this input, so the stage recorded during the
            # in-process conversion above describes the CLI run too
            self.judge(res, doc, out, 3, at, du, meta, entry="CLI")
        finally:
            import shutil

            shutil.rmtree(tmp, ignore_errors=True)

    def replay(self, rp):
        res = new_result()
        if rp.get("cli_clip"):
            # the command line route with --clip_to_viewbox: run it again and validate what it prints
            env = dict(os.environ)
            env["PYTHONPATH"] = os.path.join(bootstrap.repo_root(), "src")
            env["PYTHONUTF8"] = "1"
            args = [sys.executable, "-m", "picosvg.picosvg", "--clip_to_viewbox"]
            args += ["--allow_text"] if rp.get("allow_text") else []
            args += ["--drop_unsupported"] if rp.get("drop_unsupported") else []
            p = subprocess.run(args, input=rp["doc"], capture_output=True, text=True, encoding="utf-8", timeout=120, env=env)
            if p.returncode == 0:
                stagemon.reset()
                self.judge(res, rp["doc"], p.stdout, 3, rp.get("allow_text", False), rp.get("drop_unsupported", False), entry="CLI --clip_to_viewbox")
            return res["viol"]
        self.convert_and_judge(res, rp["doc"], rp.get("ndigits", 3), rp.get("allow_text", False), rp.get("drop_unsupported", False))
        return res["viol"]
