"""Shared driver for the rendering properties: convert a generated document with the real
pipeline, evaluate source and output with the reference renderer, compare at sample points."""
import random

from picomon import conv, events
from picomon.driver import Driver, new_result, bump, h8
from picomon.ref import render as RR


class RenderDriver(Driver):
    mode = "stack"  # or "color"
    eps_frac = 0.004
    docs_per_case = 10
    n_cases = {"quick": 60, "thorough": 2000}
    color_tol = 4e-3
    steep_probe = None
    ndigits_choices = (3,)
    nontrivial_min_points = 30
    time_budget = {"quick": 150, "thorough": 1200}
    expected_exceptions = ()  # substrings of exception keys that are known observations

    def cases(self, tier, seed):
        return [("docs", seed, k) for k in range(self.n_cases[tier])]

    def setup_worker(self, tier, seed):
        pass

    def gen_doc(self, rng):
        """-> (text, features Counter, meta)"""
        raise NotImplementedError

    def classify(self, doc, out, mismatch, meta):
        return self.engine_fault(doc, out)

    _boolmon = False

    def engine_fault(self, doc, out=None, ndigits=None):
        """Re-run the conversion with the C13 pathop monitor attached: if a boolean operation
        made while converting this very document is wrong and the same wrong answer is
        reproduced by a direct skia-pathops call from the harness, the mismatch is the engine's."""
        from picomon.monitors import boolmon, paintmon

        if not RenderDriver._boolmon:
            boolmon.STATE["judge"] = False
            boolmon.install()
            if not getattr(paintmon, "INSTALLED", False):
                paintmon.STATE["judge"] = False
                paintmon.install(empty_subpaths=False)
            RenderDriver._boolmon = True
        saved = events.drain()
        pm_judge, pm_seen = paintmon.STATE["judge"], paintmon.STATE["seen"]
        paintmon.STATE["judge"], paintmon.STATE["seen"] = True, None
        boolmon.STATE["judge"] = True
        boolmon.STATE["extra_points"] = [self._cur_point] if getattr(self, "_cur_point", None) else None
        boolmon.STATE["n"] = 0
        boolmon.STATE["cap"] = 400
        try:
            conv.convert(doc, ndigits=ndigits)
        finally:
            boolmon.STATE["judge"] = False
            boolmon.STATE["extra_points"] = None
            paintmon.STATE["judge"], paintmon.STATE["seen"] = pm_judge, pm_seen
        evs = events.drain()
        events.LOG.extend(saved)
        for mech in ("skia-engine-wrong-result", "skia-simplify-empties-painted-outline"):
            if any(ev.get("mech") == mech for ev in evs):
                return mech
        return None

    def is_nontrivial(self, st, feats, meta):
        return st["kept"] >= self.nontrivial_min_points and st["nonempty"] >= 5

    def check_doc(self, doc, res, rng, feats=None, meta=None, ndigits=3):
        res["evals"] += 1
        conv.CUR_NDIGITS = ndigits
        status, out = conv.convert(doc, ndigits=ndigits)
        if status == "exc":
            bump(res["counters"], "convert_exception")
            bump(res["counters"], "exc." + conv.exc_key(out))
            return None
        try:
            src = RR.build(doc)
            dst = RR.build(out)
        except RR.RefError as e:
            bump(res["counters"], "reference_out_of_subset")
            bump(res["counters"], "referr." + str(e)[:40])
            return None
        eps = self.eps_frac * max(src.viewbox[2], src.viewbox[3])
        pts = conv.sample_points(src, rng, eps=eps)
        try:
            if self.mode == "stack":
                st = conv.compare_stacks(src, dst, pts, eps)
            else:
                st = conv.compare_colors(src, dst, pts, eps, self.color_tol, self.steep_probe)
        except RR.RefError as e:
            bump(res["counters"], "reference_out_of_subset")
            return None
        except Exception as e:
            if events.is_harness_exc(e):
                raise
            from picomon.ref.gradient import GradError

            if isinstance(e, GradError):
                bump(res["counters"], "reference_out_of_subset")
                return None
            raise
        for k, v in src.stats.items():
            bump(res["counters"], "src_" + k, v)
        st["src_stats"] = dict(src.stats)
        bump(res["counters"], "points_kept", st["kept"])
        bump(res["counters"], "points_discarded", st["discarded"])
        bump(res["counters"], "points_nonempty", st["nonempty"])
        if st["mismatch"]:
            p, a, b = st["mismatch"]
            self._cur_point = p
            mech = self.classify(doc, out, st["mismatch"], meta)
            self._cur_point = None
            res["viol"].append(dict(
                rule="render_mismatch", sig="render_mismatch" + (f":{mech}" if mech else ""), mech=mech,
                msg=f"at {p}: source renders {a}, converted output renders {b}\nSOURCE: {doc}\nOUTPUT: {out}",
                replay={"kind": "doc", "doc": doc, "point": list(p), "ndigits": ndigits}))
        elif self.is_nontrivial(st, feats, meta):
            res["nt"].append(h8(doc))
        return st, out, src, dst

    def run_case(self, case):
        _, seed, k = case
        rng = random.Random(f"{self.pid}-{seed}-{k}")
        res = new_result()
        for _ in range(self.docs_per_case):
            doc, feats, meta = self.gen_doc(rng)
            for f, v in feats.items():
                bump(res["features"], f, v)
            r = self.check_doc(doc, res, rng, feats, meta, ndigits=rng.choice(self.ndigits_choices))
            if r:
                # the same feature counts, restricted to documents that converted and were judged:
                # a feature whose documents all fail to convert leaves its floor unmet (inconclusive)
                for f, v in feats.items():
                    bump(res["features"], "judged." + f, v)
            if r and res["sample"] is None and r[0]["nonempty"] > 20:
                res["sample"] = {"document": doc[:1500], "points_kept": r[0]["kept"]}
        for ev in events.drain():
            pass
        return res

    def replay(self, rp):
        res = new_result()
        rng = random.Random(0)
        self.check_doc(rp["doc"], res, rng, ndigits=rp.get("ndigits", 3))
        if not res["viol"] and rp.get("point"):
            # targeted re-check at the recorded point
            status, out = conv.convert(rp["doc"], ndigits=rp.get("ndigits", 3))
            if status == "ok":
                src, dst = RR.build(rp["doc"]), RR.build(out)
                eps = self.eps_frac * max(src.viewbox[2], src.viewbox[3])
                f = conv.compare_stacks if self.mode == "stack" else (lambda a, b, p, e: conv.compare_colors(a, b, p, e, self.color_tol, self.steep_probe))
                st = f(src, dst, [tuple(rp["point"])], eps)
                if st["mismatch"]:
                    res["viol"].append(dict(rule="render_mismatch", msg=str(st["mismatch"])))
        return res["viol"]
