"""Helpers around the real conversion and the rendering comparison shared by the
conversion-level drivers (C02-C06, C19)."""
import math
import random

from picomon import events
from picomon.ref import render as RR, pathgeom as PG


CUR_NDIGITS = 3  # set by the rendering drivers per document, so that classifier re-conversions use the case's own precision


def convert(doc, ndigits=None, allow_text=False, drop_unsupported=False):
    """-> ("ok", output_text) | ("exc", exception)"""
    from picosvg.svg import SVG

    if ndigits is None:
        ndigits = CUR_NDIGITS

    try:
        svg = SVG.fromstring(doc)
        out = svg.topicosvg(ndigits=ndigits, allow_text=allow_text, drop_unsupported=drop_unsupported)
        return "ok", out.tostring()
    except Exception as e:
        if events.is_harness_exc(e):
            raise
        return "exc", e


def exc_key(e):
    return f"{type(e).__name__}:{str(e)[:50]}"


def sample_points(scene_src, rng, n_uniform=120, n_edge=130, eps=0.4, extra_polys=None):
    vb = scene_src.viewbox
    x0, y0, w, h = vb
    m = 0.1 * max(w, h)
    pts = [(rng.uniform(x0 - m, x0 + w + m), rng.uniform(y0 - m, y0 + h + m)) for _ in range(n_uniform)]
    polys = scene_src.edge_polys()
    if extra_polys:
        polys = polys + extra_polys
    edges = []
    for poly in polys:
        for i in range(1, len(poly)):
            edges.append((poly[i - 1], poly[i]))
        if len(poly) > 2:
            edges.append((poly[-1], poly[0]))
    if edges:
        for _ in range(n_edge):
            a, b = edges[rng.randrange(len(edges))]
            dx, dy = b[0] - a[0], b[1] - a[1]
            L = math.hypot(dx, dy)
            if L == 0:
                continue
            t = rng.random()
            off = rng.uniform(1.5, 4.0) * eps * rng.choice((-1, 1))
            pts.append((a[0] + t * dx - dy / L * off, a[1] + t * dy + dx / L * off))
    return pts


def compare_stacks(src_scene, out_scene, pts, eps):
    """-> dict(kept, nonempty, discarded, mismatch=None|(point, src_stack, out_stack))"""
    kept = nonempty = disc = 0
    for p in pts:
        a = src_scene.stack(p, eps)
        if a is None:
            disc += 1
            continue
        b = out_scene.stack(p, eps)
        if b is None:
            disc += 1
            continue
        kept += 1
        pa = [(x[0], x[1] if x[1] == "fill" else "fill") for x in a]
        pb = [(x[0], "fill") for x in b]
        if pa:
            nonempty += 1
        if [x[0] for x in pa] != [x[0] for x in pb]:
            return dict(kept=kept, nonempty=nonempty, discarded=disc, mismatch=(p, [x[0] for x in pa], [x[0] for x in pb]))
    return dict(kept=kept, nonempty=nonempty, discarded=disc, mismatch=None)


def compare_colors(src_scene, out_scene, pts, eps, tol, steep_probe=None):
    """steep_probe: a distance d; samples where the *source* colour changes by more than tol/3
    within d are discarded (a gradient that steep turns the permitted 6-decimal rounding of its
    parameters into a colour difference above the tolerance)."""
    kept = nonempty = disc = multi = 0
    for p in pts:
        a = src_scene.color(p, eps)
        if a is None:
            disc += 1
            continue
        if steep_probe:
            steep = False
            for q in ((p[0] + steep_probe, p[1]), (p[0], p[1] + steep_probe), (p[0] - steep_probe, p[1] - steep_probe)):
                a2 = src_scene.color(q, eps)
                if a2 is None or max(abs(x - y) for x, y in zip(a, a2)) > tol / 3:
                    steep = True
                    break
            if steep:
                disc += 1
                continue
        b = out_scene.color(p, eps)
        if b is None:
            disc += 1
            continue
        kept += 1
        if a[3] > 0:
            nonempty += 1
        if max(abs(x - y) for x, y in zip(a, b)) > tol:
            return dict(kept=kept, nonempty=nonempty, discarded=disc, mismatch=(p, a, b))
    return dict(kept=kept, nonempty=nonempty, discarded=disc, mismatch=None)
