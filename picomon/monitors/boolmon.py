"""Monitors on the boolean path operations (C13): svg_pathops._do_pathop / remove_overlaps
and the shape-level union / intersection / difference / SVGPath.remove_overlaps.

Oracle: reference winding numbers over reference-flattened operands at sample points
outside the epsilon band of every operand and result edge.
"""
import math
import random

from picomon import attach, events
from picomon.driver import h8
from picomon.ref import pathgeom as PG

NAME = "pathop"
STATE = {"judge": True, "cap": None, "n": 0, "npoints": 80, "seen": None, "depth": 0, "extra_points": None}


def _mat(cmds):
    return [(c, tuple(float(v) for v in a)) for c, a in cmds]


def _opname(op):
    n = getattr(op, "name", str(op)).upper()
    return n


def expected(opname, ins):
    if len(ins) == 1:
        return ins[0]
    if opname == "UNION":
        return any(ins)
    if opname == "INTERSECTION":
        return all(ins)
    if opname == "DIFFERENCE":
        return ins[0] and not any(ins[1:])
    if opname == "XOR":
        r = False
        for i in ins:
            r = r != i
        return r
    if opname == "REVERSE_DIFFERENCE":
        return ins[-1] and not any(ins[:-1])
    return None


def judge(what, opname, operands, rules, result, rng=None, eps_frac=0.004):
    """operands: list of exploded absolute command lists; result likewise.
    -> (verdict, info)"""
    for cmds in operands + [result]:
        for c, a in cmds:
            if c not in "MLQCZ" or not all(math.isfinite(v) for v in a):
                return "out_of_domain", None
    polys = [PG.flatten(c) for c in operands]
    xs = [p[0] for pl in polys for poly in pl for p in poly]
    ys = [p[1] for pl in polys for poly in pl for p in poly]
    if not xs:
        return "out_of_domain", None
    x0, x1, y0, y1 = min(xs), max(xs), min(ys), max(ys)
    ext = max(x1 - x0, y1 - y0)
    if ext <= 0:
        return "out_of_domain", None
    eps = eps_frac * ext
    rpolys = PG.flatten(result, tol=1e-4 * ext)
    rng = rng or random.Random(h8(what, opname, operands[0][:3], len(result)))
    pts = []
    m = 0.08 * ext
    n_uniform = STATE["npoints"]
    for _ in range(n_uniform):
        pts.append((rng.uniform(x0 - m, x1 + m), rng.uniform(y0 - m, y1 + m)))
    # edge-biased points either side of operand edges
    edges = []
    for pl in polys:
        for poly in pl:
            for i in range(len(poly)):
                edges.append((poly[i - 1], poly[i]))
    for _ in range(n_uniform // 2):
        if not edges:
            break
        a, b = edges[rng.randrange(len(edges))]
        t = rng.random()
        px, py = a[0] + t * (b[0] - a[0]), a[1] + t * (b[1] - a[1])
        dx, dy = b[0] - a[0], b[1] - a[1]
        L = math.hypot(dx, dy)
        if L == 0:
            continue
        off = rng.uniform(1.5, 4.0) * eps * rng.choice((-1, 1))
        pts.append((px - dy / L * off, py + dx / L * off))
    if STATE["extra_points"]:
        # attribution runs: the point where a document-level mismatch was seen, and its surroundings
        for q in STATE["extra_points"]:
            pts.append(tuple(q))
            for _ in range(12):
                pts.append((q[0] + rng.uniform(-3, 3) * eps, q[1] + rng.uniform(-3, 3) * eps))
    kept = n_in = n_out = sens = 0
    for p in pts:
        if any(PG.dist(p, pl) < eps for pl in polys) or (rpolys and PG.dist(p, rpolys) < eps):
            continue
        ws = [PG.winding(p, pl) for pl in polys]
        ins = [(w != 0) if r == "nonzero" else (w % 2 != 0) for w, r in zip(ws, rules)]
        exp = expected(opname, ins)
        if exp is None:
            return "out_of_domain", None
        wr = PG.winding(p, rpolys)
        got_nz, got_eo = (wr != 0), (wr % 2 != 0)
        kept += 1
        if exp:
            n_in += 1
        else:
            n_out += 1
        if any((w != 0) != (w % 2 != 0) for w in ws):
            sens += 1
        if got_nz != exp or got_eo != exp:
            return "violation", dict(
                rule="set_operation" if got_nz == got_eo else "result_rule_dependent",
                msg=f"{what} {opname} rules={list(rules)}: at {p} operands are inside={ins} (windings {ws}) so the result must be "
                    f"{'inside' if exp else 'outside'}, but the result path has winding {wr} (nonzero={got_nz}, evenodd={got_eo})",
                point=p,
            )
    return "ok", dict(kept=kept, n_in=n_in, n_out=n_out, sens=sens)


def engine_direct(opname, operands, rules):
    """The same operation computed by calling skia-pathops directly from the harness,
    the way the statement describes it (each operand under its own rule, pairwise fold,
    fix_winding, final simplify).  Used only to attribute a wrong result to the engine."""
    import pathops

    ft = {"nonzero": pathops.FillType.WINDING, "evenodd": pathops.FillType.EVEN_ODD}

    def mk(cmds, rule):
        p = pathops.Path(fillType=ft[rule])
        for c, a in cmds:
            if c == "M":
                p.moveTo(*a)
            elif c == "L":
                p.lineTo(*a)
            elif c == "Q":
                p.quadTo(*a)
            elif c == "C":
                p.cubicTo(*a)
            elif c == "Z":
                p.close()
        return p

    op = {"UNION": pathops.PathOp.UNION, "INTERSECTION": pathops.PathOp.INTERSECTION, "DIFFERENCE": pathops.PathOp.DIFFERENCE}.get(opname)
    cur = mk(operands[0], rules[0])
    if len(operands) > 1:
        if op is None:
            return None
        for cmds, r in zip(operands[1:], rules[1:]):
            cur = pathops.op(cur, mk(cmds, r), op, fix_winding=True)
    cur.simplify(fix_winding=True)
    out = []
    for verb, pts in cur:
        name = {pathops.PathVerb.MOVE: "M", pathops.PathVerb.LINE: "L", pathops.PathVerb.QUAD: "Q", pathops.PathVerb.CUBIC: "C", pathops.PathVerb.CLOSE: "Z"}.get(verb)
        if name is None:
            return None
        out.append((name, tuple(float(v) for pt in pts for v in pt)))
    return out


def classify(opname, operands, rules, info):
    """Is the wrong answer the engine's own (reproduced by a direct, independent call)?"""
    try:
        direct = engine_direct(opname, operands, rules)
        if direct is None:
            return None
        p = info["point"]
        wr = PG.winding(p, PG.flatten(direct))
        ws = [PG.winding(p, PG.flatten(c)) for c in operands]
        ins = [(w != 0) if r == "nonzero" else (w % 2 != 0) for w, r in zip(ws, rules)]
        exp = expected(opname if len(operands) > 1 else "UNION", ins)
        if (wr != 0) != exp or (wr % 2 != 0) != exp:
            return "skia-engine-wrong-result"
    except Exception:
        return None
    return None


def _record(what, opname, operands, rules, result, exc):
    if exc is not None:
        events.emit(NAME, "rejected")
        events.COUNT[f"{NAME}.rejected.{type(exc).__name__}"] += 1
        return
    try:
        verdict, info = judge(what, opname, operands, rules, result)
    except Exception as e:
        if events.is_harness_exc(e):
            raise
        events.emit(NAME, "inconclusive")
        return
    if verdict == "violation":
        mech = classify(opname, operands, rules, info)
        events.emit(NAME, "violation", rule=info["rule"], sig=f"{what}:{opname}:{info['rule']}" + (f":{mech}" if mech else ""), mech=mech, msg=info["msg"],
                    replay={"kind": "pathop", "what": what, "op": opname, "operands": operands, "rules": list(rules)})
    else:
        events.emit(NAME, verdict)
        events.COUNT[f"{NAME}.{what}.{verdict}"] += 1
        if verdict == "ok":
            events.COUNT[f"{NAME}.points_kept"] += info["kept"]
            events.COUNT[f"{NAME}.points_rule_sensitive"] += info["sens"]
            if info["kept"] >= 20 and info["n_in"] and info["n_out"]:
                events.COUNT[f"{NAME}.decisive_calls"] += 1
                if info["sens"]:
                    events.NT.add(h8(what, opname, list(rules), operands))


def _should():
    if not STATE["judge"]:
        return False
    cap = STATE["cap"]
    if cap is not None and STATE["n"] >= cap:
        return False
    STATE["n"] += 1
    return True


def install(shape_level=True):
    from picosvg import svg_pathops as SP
    from picosvg import svg_types as T

    def make_do(orig):
        def _do_pathop(op, svg_cmd_seqs, fill_rules):
            attach.count(NAME)
            seqs = [_mat(s) for s in svg_cmd_seqs]
            rules = list(fill_rules)
            exc = None
            res = None
            try:
                g = orig(op, seqs, rules)
                res = _mat(g) if g is not None else []
            except Exception as e:
                if events.is_harness_exc(e):
                    raise
                exc = e
            if seqs and STATE["depth"] == 0 and _should():
                _record("_do_pathop", _opname(op), seqs, rules, res, exc)
            if exc is not None:
                raise exc
            return iter(res)

        return _do_pathop

    attach.wrap_function(SP, "_do_pathop", make_do)

    def make_ro(orig):
        def remove_overlaps(svg_cmds, fill_rule):
            attach.count(NAME)
            seq = _mat(svg_cmds)
            exc = None
            res = None
            try:
                res = _mat(orig(seq, fill_rule))
            except Exception as e:
                if events.is_harness_exc(e):
                    raise
                exc = e
            if STATE["depth"] == 0 and _should():
                _record("remove_overlaps", "SIMPLIFY", [seq], [fill_rule], res, exc)
            if exc is not None:
                raise exc
            return iter(res)

        return remove_overlaps

    attach.wrap_function(SP, "remove_overlaps", make_ro)

    if not shape_level:
        return

    def shape_wrapper(name, opname, rule_of):
        def make(orig):
            def w(shapes, *a, **kw):
                attach.count(NAME + ".shape_level")
                shapes = list(shapes)
                exc = None
                res = None
                # operands and promised rules, computed independently of the callee
                STATE["depth"] += 1
                try:
                    try:
                        operands = [_mat(s.as_cmd_seq()) for s in shapes]
                        rules = rule_of(shapes, a, kw)
                    except Exception as e:
                        if events.is_harness_exc(e):
                            raise
                        operands = None
                finally:
                    STATE["depth"] -= 1
                try:
                    res = _mat(orig(shapes, *a, **kw))
                except Exception as e:
                    if events.is_harness_exc(e):
                        raise
                    exc = e
                if operands and _should():
                    _record(name, opname, operands, rules, res, exc)
                if exc is not None:
                    raise exc
                return iter(res)

            return w

        attach.wrap_function(T, name, make)

    shape_wrapper("union", "UNION", lambda shapes, a, kw: [s.clip_rule for s in shapes])
    shape_wrapper("difference", "DIFFERENCE", lambda shapes, a, kw: [s.clip_rule for s in shapes])

    def isect_rules(shapes, a, kw):
        fr = kw.get("fill_rules", a[0] if a else None)
        return list(fr) if fr is not None else [s.clip_rule for s in shapes]

    shape_wrapper("intersection", "INTERSECTION", isect_rules)

    def make_pro(orig):
        def remove_overlaps(self, inplace=False):
            attach.count(NAME + ".shape_level")
            STATE["depth"] += 1
            try:
                try:
                    operand = _mat(self.as_cmd_seq())
                    rule = self.fill_rule
                except Exception as e:
                    if events.is_harness_exc(e):
                        raise
                    operand = None
            finally:
                STATE["depth"] -= 1
            exc = None
            res = None
            try:
                res = orig(self, inplace=inplace)
            except Exception as e:
                if events.is_harness_exc(e):
                    raise
                exc = e
            if operand and _should():
                out = None
                if exc is None:
                    try:
                        STATE["depth"] += 1
                        out = _mat(res.as_cmd_seq())
                    finally:
                        STATE["depth"] -= 1
                    if res.fill_rule != "nonzero":
                        events.emit(NAME, "violation", rule="result_rule", sig="SVGPath.remove_overlaps:fill_rule",
                                    msg=f"remove_overlaps left fill_rule={res.fill_rule}", replay=None)
                _record("SVGPath.remove_overlaps", "SIMPLIFY", [operand], [rule], out, exc)
            if exc is not None:
                raise exc
            return res

        return remove_overlaps

    attach.wrap_method(T.SVGPath, "remove_overlaps", make_pro)
