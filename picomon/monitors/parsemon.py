"""Monitor on picosvg.svg_path_iter.parse_svg_path (all alias bindings).

Oracle: the reference SVG 1.1 path grammar.  For a string in the grammar the real result
must equal the reference command sequence or the call must raise ValueError; on any
string no exception type other than ValueError may escape.
"""
from picomon import attach, events
from picomon.ref import pathgrammar

NAME = "parse_svg_path"
SEEN = None  # optional set for de-duplication during in-pipeline sampling
STATE = {"judge": True, "last": None}


def _same(real, ref):
    if len(real) != len(ref):
        return False
    for (rc, ra), (qc, qa) in zip(real, ref):
        if rc != qc or len(ra) != len(qa):
            return False
        for x, y in zip(ra, qa):
            if not (x == y):
                return False
    return True


def classify(text, real, tokens):
    """Mechanism classifier for silent misparses."""
    if pathgrammar.has_redundant_leading_zero(tokens):
        return "leading-zero-split"
    return None


def judge(text, exploded, real, exc):
    """Returns (verdict, info)."""
    ref, errpos, tokens, segs = pathgrammar.parse_ex(text)
    if exc is not None and not isinstance(exc, ValueError):
        return "violation", dict(
            rule="foreign_exception",
            sig=f"foreign_exception:{type(exc).__name__}",
            msg=f"{type(exc).__name__}: {exc} on {text!r}",
            in_grammar=ref is not None,
        )
    if ref is None:
        return "not_in_grammar", None
    if exc is not None:
        return "rejected_valid", None
    want = ref if exploded else segs
    if _same(real, want):
        return "ok", dict(nnum=len(tokens), nrepeat=len(ref) != len(segs))
    mech = classify(text, real, tokens)
    return "violation", dict(
        rule="silent_misparse",
        sig="silent_misparse" + (":" + mech if mech else ""),
        mech=mech,
        msg=f"{text!r} (exploded={exploded}) parsed as {real!r}; grammar says {want!r}",
    )


def install():
    from picosvg import svg_path_iter

    def make(orig):
        def parse_svg_path(svg_path, exploded=False):
            attach.count(NAME)
            exc = None
            real = None
            try:
                real = list(orig(svg_path, exploded))
            except Exception as e:  # noqa
                if events.is_harness_exc(e):
                    raise
                exc = e
            if STATE["judge"] and isinstance(svg_path, str):
                key = (svg_path, bool(exploded))
                if SEEN is None or key not in SEEN:
                    if SEEN is not None:
                        SEEN.add(key)
                    verdict, info = judge(svg_path, exploded, real, exc)
                    STATE["last"] = (verdict, info)
                    if verdict == "violation":
                        events.emit(NAME, "violation", text=svg_path, exploded=bool(exploded), **info)
                    else:
                        events.emit(NAME, verdict)
            if exc is not None:
                raise exc
            return iter(real)

        return parse_svg_path

    return attach.wrap_function(svg_path_iter, "parse_svg_path", make)
