"""Monitors / contracts on picosvg.svg_transform (C11).

parse_svg_transform, Affine2D.tostring, __matmul__, compose_ltr, map_point: hand-written
wrappers.  inverse, rect_to_rect, decompose_scale, decompose_translation: icontract
postconditions (named condition functions that record a verdict and return True, so the
code under observation is never disturbed).
"""
import math
from fractions import Fraction as Fr

from picomon import attach, events
from picomon.driver import h8
from picomon.ref import affine as RA

NAME = "affine"
STATE = {"judge": True, "seen": None, "depth": 0}


def _finite(vals):
    return all(isinstance(v, (int, float)) and math.isfinite(v) for v in vals)


def _emit(what, verdict, msg=None, rule=None, replay=None, mech=None):
    if verdict == "violation":
        events.emit(NAME, "violation", rule=rule or what, sig=f"{what}:{rule or 'law'}", mech=mech, msg=f"{what}: {msg}", replay=replay)
    else:
        events.emit(NAME, verdict)
        events.COUNT[f"{NAME}.{what}.{verdict}"] += 1


def _dedup(key):
    seen = STATE["seen"]
    if seen is None:
        return True
    if key in seen:
        return False
    seen.add(key)
    return True


# ---------------------------------------------------------------- parsing


def judge_parse(text, real, exc):
    ops = RA.parse_list(text)
    if ops is None:
        _emit("parse", "not_in_grammar")
        return
    if exc is not None:
        _emit("parse", "violation", f"grammar-valid transform list {text!r} raised {type(exc).__name__}: {exc}", "rejected_valid", {"kind": "parse", "text": text})
        return
    want = RA.list_matrix(ops)
    M = 1.0
    for op, args in ops:
        m = RA.op_matrix(op, args)
        M *= max(1.0, max(abs(float(v)) for v in m), max(abs(a) for a in args))
    tol = 1e-12 * M
    for k in range(6):
        if not math.isfinite(float(real[k])) or abs(Fr(float(real[k])) - want[k]) > tol:
            _emit("parse", "violation", f"{text!r} -> {tuple(real)}; the listed operations multiply to {tuple(float(v) for v in want)}", "wrong_matrix",
                  {"kind": "parse", "text": text})
            return
    _emit("parse", "ok")
    if len(ops) >= 2:
        events.NT.add(h8("parse", text))
    events.COUNT[f"{NAME}.parse.ops{min(len(ops), 5)}"] += 1


# ---------------------------------------------------------------- algebra

_PTS = ((0.0, 0.0), (1.0, 0.0), (0.0, 1.0), (1.0, 1.0), (-3.5, 2.25), (100.0, -7.0))


def _bound(m):
    return max(1.0, max(abs(float(v)) for v in m))


def judge_compose(what, factors_ltr, result):
    """factors_ltr: matrices applied first-to-last; result: the real composed matrix."""
    if not all(_finite(f) for f in factors_ltr) or not _finite(result):
        _emit(what, "out_of_domain")
        return
    fr = [RA.frac(tuple(f)) for f in factors_ltr]
    B = 1.0
    for f in factors_ltr:
        B *= 2 * _bound(f)
    for p in _PTS:
        q = (Fr(p[0]), Fr(p[1]))
        for f in fr:
            q = RA.apply(f, q)
        got = RA.apply(RA.frac(tuple(result)), (Fr(p[0]), Fr(p[1])))
        tol = 1e-12 * max(1, len(factors_ltr)) * B * (1 + abs(p[0]) + abs(p[1]))
        if abs(got[0] - q[0]) > tol or abs(got[1] - q[1]) > tol:
            _emit(what, "violation", f"composition of {[tuple(f) for f in factors_ltr]} (applied left to right) maps {p} to "
                  f"({float(got[0])!r}, {float(got[1])!r}); mapping through the factors in turn gives ({float(q[0])!r}, {float(q[1])!r})",
                  "composition_law", {"kind": what, "factors": [list(f) for f in factors_ltr]})
            return
    _emit(what, "ok")
    if len(factors_ltr) >= 2:
        events.NT.add(h8(what, [tuple(f) for f in factors_ltr]))


def judge_map_point(m, p, got):
    if not _finite(m) or not _finite(p):
        _emit("map_point", "out_of_domain")
        return
    want = RA.apply(RA.frac(tuple(m)), (Fr(p[0]), Fr(p[1])))
    tol = 1e-13 * _bound(m) * (1 + abs(p[0]) + abs(p[1]))
    if abs(Fr(got[0]) - want[0]) > tol or abs(Fr(got[1]) - want[1]) > tol:
        _emit("map_point", "violation", f"{tuple(m)} maps {tuple(p)} to {tuple(got)}, exact value ({float(want[0])!r}, {float(want[1])!r})", "map_point",
              {"kind": "map_point", "m": list(m), "p": list(p)})
        return
    _emit("map_point", "ok")


def cond_inverse(self, result):
    try:
        _judge_inverse(self, result)
    except Exception as e:
        if events.is_harness_exc(e):
            raise
        _emit("inverse", "inconclusive")
    return True


def _judge_inverse(m, inv):
    attach.count("affine.inverse")
    if not STATE["judge"] or not _dedup(("inv", tuple(m))):
        return
    if not _finite(m):
        _emit("inverse", "out_of_domain")
        return
    ex = RA.inverse_exact(tuple(m))
    if ex is None:
        if tuple(inv) != (0, 0, 0, 0, 0, 0):
            _emit("inverse", "violation", f"singular {tuple(m)} has 'inverse' {tuple(inv)} (must be the degenerate transform)", "singular_inverse",
                  {"kind": "inverse", "m": list(m)})
        else:
            _emit("inverse", "ok")
        return
    kappa = RA.cond2x2(tuple(m))
    if kappa > 1e9 or abs(float(RA.det(RA.frac(tuple(m))))) < 1e-15:
        _emit("inverse", "out_of_domain")
        return
    if not _finite(inv):
        _emit("inverse", "violation", f"inverse of {tuple(m)} is not finite: {tuple(inv)}", "inverse", {"kind": "inverse", "m": list(m)})
        return
    big = max(abs(float(v)) for v in ex[:4])
    for k in range(6):
        tol = 1e-12 * kappa * big * (1 if k < 4 else (1 + abs(float(m[4])) + abs(float(m[5]))))
        if abs(Fr(float(inv[k])) - ex[k]) > tol:
            _emit("inverse", "violation", f"inverse of {tuple(m)} reported as {tuple(inv)}; exact inverse {tuple(float(v) for v in ex)}", "inverse",
                  {"kind": "inverse", "m": list(m)})
            return
    _emit("inverse", "ok")
    events.NT.add(h8("inv", tuple(m)))


def judge_tostring(m, s, fromstring):
    if not _finite(m):
        _emit("tostring", "out_of_domain")
        return
    if RA.parse_list(s) is None:
        _emit("tostring", "violation", f"{tuple(m)} serialised as {s!r}, which is not in the transform grammar", "tostring_grammar",
              {"kind": "tostring", "m": list(m)})
        return
    try:
        back = fromstring(s)
    except Exception as e:
        if events.is_harness_exc(e):
            raise
        _emit("tostring", "violation", f"{tuple(m)} -> {s!r} does not parse back: {e!r}", "roundtrip", {"kind": "tostring", "m": list(m)})
        return
    if not all(a == b for a, b in zip(back, m)):
        _emit("tostring", "violation", f"{tuple(m)} -> {s!r} -> {tuple(back)}", "roundtrip", {"kind": "tostring", "m": list(m)})
        return
    _emit("tostring", "ok")
    events.NT.add(h8("tostring", tuple(m)))


# ---------------------------------------------------------------- rect_to_rect


def _canon_align(par):
    parts = par.strip().split()
    if not parts:
        return None
    al = parts[0].lower()
    table = {a.lower(): a for a in RA.ALIGNS}
    if al not in table:
        return None
    mos = "meet"
    if len(parts) == 2:
        if parts[1].lower() not in ("meet", "slice"):
            return None
        mos = parts[1].lower()
    elif len(parts) > 2:
        return None
    return table[al], mos


def cond_rect_to_rect(cls, src, dst, preserveAspectRatio, result):
    try:
        _judge_r2r(src, dst, preserveAspectRatio, result)
    except Exception as e:
        if events.is_harness_exc(e):
            raise
        _emit("rect_to_rect", "inconclusive")
    return True


def _judge_r2r(src, dst, par, result):
    attach.count("affine.rect_to_rect")
    if not STATE["judge"]:
        return
    ca = _canon_align(par)
    if ca is None or not _finite(src) or not _finite(dst) or src.w <= 0 or src.h <= 0 or dst.w <= 0 or dst.h <= 0:
        _emit("rect_to_rect", "out_of_domain")
        return
    align, mos = ca
    S = RA.frac(tuple(src))
    Dd = RA.frac(tuple(dst))
    want = RA.viewport_transform(S, Dd, align, mos)
    mag = max(abs(float(v)) for v in want) + 1
    tol = 1e-12 * mag * (1 + max(abs(float(v)) for v in tuple(src) + tuple(dst)))
    rep = {"kind": "rect_to_rect", "src": list(src), "dst": list(dst), "par": par}
    for k in range(6):
        if not math.isfinite(float(result[k])) or abs(Fr(float(result[k])) - want[k]) > tol:
            _emit("rect_to_rect", "violation", f"src={tuple(src)} dst={tuple(dst)} {par!r}: got {tuple(result)}, the viewport algorithm gives "
                  f"{tuple(float(v) for v in want)}", "viewport_algorithm", rep)
            return
    # defining consequences, independent of the formula above
    R = RA.frac(tuple(result))
    x0, y0 = RA.apply(R, (S[0], S[1]))
    x1, y1 = RA.apply(R, (S[0] + S[2], S[1] + S[3]))
    dx0, dy0, dx1, dy1 = Dd[0], Dd[1], Dd[0] + Dd[2], Dd[1] + Dd[3]
    t = tol * 4
    bad = None
    if align == "none":
        if max(abs(x0 - dx0), abs(y0 - dy0), abs(x1 - dx1), abs(y1 - dy1)) > t:
            bad = "none must map corners to corners"
    else:
        inside = x0 >= dx0 - t and y0 >= dy0 - t and x1 <= dx1 + t and y1 <= dy1 + t
        covers = x0 <= dx0 + t and y0 <= dy0 + t and x1 >= dx1 - t and y1 >= dy1 - t
        touch_x = abs(x0 - dx0) <= t and abs(x1 - dx1) <= t
        touch_y = abs(y0 - dy0) <= t and abs(y1 - dy1) <= t
        if abs((x1 - x0) * S[3] - (y1 - y0) * S[2]) > t * (S[2] + S[3]):
            bad = "aspect ratio not preserved"
        elif mos == "meet" and not (inside and (touch_x or touch_y)):
            bad = "meet: mapped viewBox must lie inside the viewport touching two opposite sides"
        elif mos == "slice" and not (covers and (touch_x or touch_y)):
            bad = "slice: mapped viewBox must cover the viewport touching two opposite sides"
        else:
            ax = {"xMin": abs(x0 - dx0), "xMid": abs((x0 + x1) - (dx0 + dx1)) / 2, "xMax": abs(x1 - dx1)}[align[:4]]
            ay = {"YMin": abs(y0 - dy0), "YMid": abs((y0 + y1) - (dy0 + dy1)) / 2, "YMax": abs(y1 - dy1)}[align[4:]]
            if ax > t or ay > t:
                bad = f"alignment {align} not honoured"
    if bad:
        _emit("rect_to_rect", "violation", f"src={tuple(src)} dst={tuple(dst)} {par!r}: {bad}; got {tuple(result)}", "viewport_consequence", rep)
        return
    _emit("rect_to_rect", "ok")
    events.NT.add(h8("r2r", tuple(src), tuple(dst), par))
    events.COUNT[f"{NAME}.r2r.{align}.{mos}"] += 1


# ---------------------------------------------------------------- decompositions


def cond_decompose_scale(self, result):
    try:
        _judge_decomp("decompose_scale", self, result)
    except Exception as e:
        if events.is_harness_exc(e):
            raise
        _emit("decompose_scale", "inconclusive")
    return True


def cond_decompose_translation(self, result):
    try:
        _judge_decomp("decompose_translation", self, result)
    except Exception as e:
        if events.is_harness_exc(e):
            raise
        _emit("decompose_translation", "inconclusive")
    return True


def _judge_decomp(what, m, result):
    attach.count("affine." + what)
    if not STATE["judge"] or not _dedup((what, tuple(m))):
        return
    first, second = result
    if not _finite(m):
        _emit(what, "out_of_domain")
        return
    kappa = RA.cond2x2(tuple(m))
    if kappa > 1e6:
        _emit(what, "out_of_domain")
        return
    rep = {"kind": what, "m": list(m)}
    if not _finite(first) or not _finite(second):
        _emit(what, "violation", f"{tuple(m)} decomposed into non-finite parts {tuple(first)}, {tuple(second)}", "decompose", rep)
        return
    if what == "decompose_translation":
        if tuple(first[:4]) != (1, 0, 0, 1) or second[4] != 0 or second[5] != 0:
            _emit(what, "violation", f"{tuple(m)}: parts are not (translation, linear): {tuple(first)}, {tuple(second)}", "decompose_shape", rep)
            return
    else:
        if first[1] != 0 or first[2] != 0 or first[4] != 0 or first[5] != 0:
            _emit(what, "violation", f"{tuple(m)}: first part is not a pure scale: {tuple(first)}", "decompose_shape", rep)
            return
    rec = RA.mul(RA.frac(tuple(second)), RA.frac(tuple(first)))  # apply `first`, then `second`
    scale = max(abs(float(v)) for v in m)
    tol = 1e-9 * kappa * (1 + scale)
    for k in range(6):
        if abs(rec[k] - Fr(float(m[k]))) > tol:
            _emit(what, "violation", f"{tuple(m)} -> {tuple(first)} then {tuple(second)} recomposes to {tuple(float(v) for v in rec)}", "decompose", rep)
            return
    _emit(what, "ok")
    events.NT.add(h8(what, tuple(m)))


# ---------------------------------------------------------------- installation


def install():
    import icontract
    from picosvg import svg_transform as ST

    A = ST.Affine2D

    class ContractBroken(Exception):
        pass

    def make_parse(orig):
        def parse_svg_transform(raw_transform):
            attach.count("affine.parse")
            exc = None
            real = None
            STATE["depth"] += 1
            try:
                real = orig(raw_transform)
            except Exception as e:
                if events.is_harness_exc(e):
                    raise
                exc = e
            finally:
                STATE["depth"] -= 1
            if STATE["judge"] and isinstance(raw_transform, str) and _dedup(("parse", raw_transform)):
                try:
                    judge_parse(raw_transform, real, exc)
                except Exception as e:
                    if events.is_harness_exc(e):
                        raise
                    _emit("parse", "inconclusive")
            if exc is not None:
                raise exc
            return real

        return parse_svg_transform

    attach.wrap_function(ST, "parse_svg_transform", make_parse)

    def make_tostring(orig):
        def tostring(self):
            attach.count("affine.tostring")
            s = orig(self)
            if STATE["judge"] and _dedup(("tostring", tuple(self))):
                STATE["judge"] = False  # the nested re-parse is part of the oracle, not workload
                try:
                    judge_tostring(self, s, ST.parse_svg_transform)
                finally:
                    STATE["judge"] = True
            return s

        return tostring

    attach.wrap_method(A, "tostring", make_tostring)

    def make_matmul(orig):
        def __matmul__(self, other):
            r = orig(self, other)
            if STATE["judge"] and STATE["depth"] == 0 and isinstance(other, A) and r is not NotImplemented:
                attach.count("affine.matmul")
                if _dedup(("mm", tuple(self), tuple(other))):
                    judge_compose("matmul", [other, self], r)
            return r

        return __matmul__

    attach.wrap_method(A, "__matmul__", make_matmul)
    A.__imatmul__ = A.__matmul__

    def make_compose(orig):
        def compose_ltr(cls, affines):
            affines = tuple(affines)
            STATE["depth"] += 1
            try:
                r = orig(cls, affines)
            finally:
                STATE["depth"] -= 1
            if STATE["judge"] and STATE["depth"] == 0:
                attach.count("affine.compose_ltr")
                if _dedup(("ltr",) + tuple(tuple(a) for a in affines)):
                    judge_compose("compose_ltr", list(affines), r)
            return r

        return compose_ltr

    attach.wrap_method(A, "compose_ltr", make_compose)

    def make_map_point(orig):
        def map_point(self, pt):
            r = orig(self, pt)
            if STATE["judge"] and STATE["depth"] == 0:
                attach.count("affine.map_point")
                if _dedup(("mp", tuple(self), tuple(pt))):
                    judge_map_point(self, pt, r)
            return r

        return map_point

    attach.wrap_method(A, "map_point", make_map_point)

    # icontract postconditions (record-and-return-True conditions)
    def contract(name, cond):
        def make(orig):
            return icontract.ensure(cond, error=ContractBroken)(orig)

        attach.wrap_method(A, name, make)

    contract("inverse", cond_inverse)
    contract("decompose_scale", cond_decompose_scale)
    contract("decompose_translation", cond_decompose_translation)
    contract("rect_to_rect", cond_rect_to_rect)
