"""Monitor on picosvg.arc_to_cubic.arc_to_cubic (all alias bindings) - C12."""
import math

from picomon import attach, events
from picomon.driver import h8
from picomon.ref import pathgeom as PG, curvecmp as CC

NAME = "arc_to_cubic"
STATE = {"judge": True, "seen": None}


def classify(args, why):
    start, rx, ry, rot, large, sweep, end = args
    if (rx < 0) != (ry < 0):
        return "one-negative-radius"
    return None


def judge(args, segs, exc):
    start, rx, ry, rot, large, sweep, end = args
    start = (float(start[0]), float(start[1]))
    end = (float(end[0]), float(end[1]))
    vals = (start[0], start[1], rx, ry, rot, end[0], end[1])
    if not all(isinstance(v, (int, float)) and math.isfinite(v) for v in vals):
        return "out_of_domain", None
    if exc is not None:
        return "violation", dict(rule="exception", msg=f"raised {type(exc).__name__}: {exc}")
    pr = PG.arc_center(start, rx, ry, rot, large, sweep, end)
    if pr is None:
        if segs:
            return "violation", dict(rule="coincident_endpoints", msg=f"coincident end points must give no segment, got {len(segs)}")
        return "ok", dict(kind="zero_length")
    if pr == ("line",):
        ok = len(segs) == 1 and segs[0][0] is None and segs[0][1] is None and tuple(segs[0][2]) == end
        if not ok:
            return "violation", dict(rule="zero_radius", msg=f"zero radius must give exactly one straight segment to the end point, got {segs!r}")
        return "ok", dict(kind="line")
    # conditioning: the construction divides by the radii and subtracts coordinates; beyond
    # this ratio float error alone exceeds the 0.03% band
    scale = max(abs(v) for v in (start[0], start[1], end[0], end[1])) + 1e-300
    if scale / min(pr["rx"], pr["ry"]) > 1e9:
        return "out_of_domain", None
    if not segs:
        return "violation", dict(rule="no_segments", msg="a proper arc produced no segment")
    pieces = []
    cur = start
    for p1, p2, tgt in segs:
        if p1 is None or p2 is None:
            return "violation", dict(rule="line_piece", msg="a proper arc produced a straight piece")
        pieces.append(("C", cur, tuple(p1), tuple(p2), tuple(tgt)))
        cur = tuple(tgt)
    if tuple(segs[-1][2]) != end:
        return "violation", dict(rule="end_point", msg=f"last end point {tuple(segs[-1][2])} != arc end point {end}")
    ok, why = CC.cubics_follow_arc(("A", start, rx, ry, rot, int(bool(large)), int(bool(sweep)), end), pieces, rel_tol=3e-4, nsamp=32)
    if not ok:
        return "violation", dict(rule="off_arc", msg=why)
    return "ok", dict(kind="arc", nseg=len(segs), corrected=pr["corrected"])


def install():
    from picosvg import arc_to_cubic as M

    def make(orig):
        def arc_to_cubic(start_point, rx, ry, rotation, large, sweep, end_point):
            attach.count(NAME)
            args = (tuple(start_point), rx, ry, rotation, large, sweep, tuple(end_point))
            exc = None
            segs = None
            try:
                segs = list(orig(start_point, rx, ry, rotation, large, sweep, end_point))
            except Exception as e:
                if events.is_harness_exc(e):
                    raise
                exc = e
            if STATE["judge"]:
                seen = STATE["seen"]
                key = args
                if seen is None or key not in seen:
                    if seen is not None:
                        seen.add(key)
                    try:
                        verdict, info = judge(args, segs, exc)
                    except Exception as e:
                        verdict, info = "inconclusive", None
                    if verdict == "violation":
                        mech = classify(args, info["msg"])
                        events.emit(NAME, "violation", rule=info["rule"], sig=f"arc:{info['rule']}" + (f":{mech}" if mech else ""),
                                    mech=mech, msg=f"arc_to_cubic{args}: {info['msg']}", args=args)
                    else:
                        events.emit(NAME, verdict)
                        if verdict == "ok" and info.get("kind") == "arc":
                            events.NT.add(h8("arc", args))
                            events.COUNT[f"{NAME}.nseg{info['nseg']}"] += 1
                            if info["corrected"]:
                                events.COUNT[f"{NAME}.radii_corrected"] += 1
                        elif verdict == "ok":
                            events.COUNT[f"{NAME}.{info['kind']}"] += 1
            if exc is not None:
                raise exc
            return iter(segs)

        return arc_to_cubic

    return attach.wrap_function(M, "arc_to_cubic", make)
