"""Records the document just before and just after SVG.remove_unpainted_shapes when it runs
inside a conversion.  Used by classifiers to attribute 'group with < 2 children' and
'orphaned gradient' to the known ordering mechanism (pruning happens after the group /
orphan decisions were taken) - and to nothing else."""
from picomon import attach

LAST = {"before": None, "after": None}
_installed = False


def install():
    global _installed
    if _installed:
        return
    _installed = True
    from lxml import etree
    from picosvg.svg import SVG

    def make(orig):
        def remove_unpainted_shapes(self, inplace=False):
            if not inplace:
                return orig(self, inplace=inplace)
            attach.count("stage.remove_unpainted_shapes")
            self._update_etree()  # what the operation itself does first
            LAST["before"] = etree.tostring(self.svg_root).decode()
            r = orig(self, inplace=True)
            LAST["after"] = etree.tostring(self.svg_root).decode()
            return r

        return remove_unpainted_shapes

    attach.wrap_method(SVG, "remove_unpainted_shapes", make)


def reset():
    LAST["before"] = LAST["after"] = None
