"""Records the document just before and just after SVG.remove_unpainted_shapes when it runs
inside a conversion.  Used by classifiers to attribute 'group with < 2 children' and
'orphaned gradient' to the known ordering mechanism (pruning happens after the group /
orphan decisions were taken) - and to nothing else."""
from picomon import attach

LAST = {"before": None, "after": None, "stroke_junk": 0}
_installed = False


def install():
    global _installed
    if _installed:
        return
    _installed = True
    from lxml import etree
    from picosvg.svg import SVG

    def make(orig):
        def remove_unpainted_shapes(self, inplace=False):
            if not inplace:
                return orig(self, inplace=inplace)
            attach.count("stage.remove_unpainted_shapes")
            self._update_etree()  # what the operation itself does first
            LAST["before"] = etree.tostring(self.svg_root).decode()
            r = orig(self, inplace=True)
            LAST["after"] = etree.tostring(self.svg_root).decode()
            return r

        return remove_unpainted_shapes

    attach.wrap_method(SVG, "remove_unpainted_shapes", make)

    # SVG._stroke promises (fill piece, stroke piece) only when the fill piece can paint; a fill
    # piece that encloses no area at all is a *new* source of late-pruned elements, not the known one
    def make_stroke(orig):
        def _stroke(self, shape):
            res = tuple(orig(self, shape))
            if len(res) == 2:
                try:
                    from picomon.ref import pathgrammar as G, pathgeom as PG

                    cmds = G.parse(res[0].as_path().d)
                    if cmds is not None:
                        polys = PG.flatten(cmds)
                        if all(_collinear(p) for p in polys):
                            LAST["stroke_junk"] += 1
                except Exception:
                    pass
            return res

        return _stroke

    attach.wrap_method(SVG, "_stroke", make_stroke)


def _collinear(poly, tol=1e-9):
    """All points of the polyline on one straight line (it can enclose no area under any rule)."""
    if len(poly) < 3:
        return True
    x0, y0 = poly[0]
    far = max(poly, key=lambda q: (q[0] - x0) ** 2 + (q[1] - y0) ** 2)
    dx, dy = far[0] - x0, far[1] - y0
    L = (dx * dx + dy * dy) ** 0.5
    if L == 0:
        return True
    return all(abs((q[0] - x0) * dy - (q[1] - y0) * dx) / L <= tol * (1 + L) for q in poly)


def reset():
    LAST["before"] = LAST["after"] = None
    LAST["stroke_junk"] = 0
