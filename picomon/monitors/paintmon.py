"""Monitors for C18: SVGShape.might_paint and SVGPath.remove_empty_subpaths.

Ground truth (reference, three-valued):
  definitely paints  - displayed, effective opacity > 0 and (visible fill with an interior
                       disc of positive radius under the fill rule, or visible stroke of
                       positive width on a segment of positive length)
  unknown            - everything else (slivers, zero-length strokes with caps, ...)
Violation: might_paint() is False on a definitely-paints shape.  True on something that
paints nothing is permitted over-approximation (only counted).
"""
import math
import random

from picomon import attach, events
from picomon.driver import h8
from picomon.ref import pathgrammar as G, pathgeom as PG, shapes as RS

NAME = "might_paint"
STATE = {"judge": True, "seen": None}
PROPS = ("fill", "fill-opacity", "fill-rule", "stroke", "stroke-width", "stroke-opacity", "opacity", "display", "stroke-linecap")


def resolve_props(shape):
    """Field values overridden by style declarations (style wins over attributes)."""
    p = {}
    for k in PROPS:
        p[k] = getattr(shape, k.replace("-", "_"))
    st = getattr(shape, "style", "") or ""
    for decl in st.split(";"):
        if decl.count(":") == 1:
            k, v = decl.split(":")
            k, v = k.strip(), v.strip()
            if k in PROPS:
                p[k] = v
    for k in ("fill-opacity", "stroke-width", "stroke-opacity", "opacity"):
        try:
            p[k] = float(p[k])
        except Exception:
            p[k] = None
    return p


def shape_cmds(shape):
    """Reference outline of the shape (from its fields, not via picosvg's as_path)."""
    tag = type(shape).tag
    if tag == "path":
        return G.parse(shape.d)
    attrs = {}
    for k in ("x", "y", "width", "height", "rx", "ry", "cx", "cy", "r", "x1", "y1", "x2", "y2", "points"):
        if hasattr(shape, k):
            v = getattr(shape, k)
            attrs[k] = v if isinstance(v, str) else repr(float(v))
    if tag == "rect":
        # the dataclass has already applied the auto/clamp rules to rx, ry
        pass
    return RS.outline(tag, attrs)


def interior_disc(cmds, rule, rng=None, n=220):
    """-> (point, clearance) with the point inside under `rule` and clearance from every
    edge >= 0.5% of the extent, or None."""
    polys = [p for p in PG.flatten(cmds) if len(p) >= 2]
    if not polys:
        return None
    xs = [q[0] for p in polys for q in p]
    ys = [q[1] for p in polys for q in p]
    x0, x1, y0, y1 = min(xs), max(xs), min(ys), max(ys)
    ext = max(x1 - x0, y1 - y0)
    if ext <= 0 or not math.isfinite(ext):
        return None
    rho = 0.005 * ext
    rng = rng or random.Random(h8(x0, y0, x1, y1, len(xs)))
    cand = []
    g = 9
    for i in range(g):
        for j in range(g):
            cand.append((x0 + (i + 0.5) * (x1 - x0) / g, y0 + (j + 0.5) * (y1 - y0) / g))
    for _ in range(n - g * g):
        cand.append((rng.uniform(x0, x1), rng.uniform(y0, y1)))
    # centroids of each polygon's consecutive vertex triples find thin but real areas
    for poly in polys:
        for i in range(0, max(0, len(poly) - 2), max(1, len(poly) // 12)):
            a, b, c = poly[i], poly[i + 1], poly[i + 2]
            cand.append(((a[0] + b[0] + c[0]) / 3, (a[1] + b[1] + c[1]) / 3))
    for p in cand:
        if PG.inside(p, polys, rule):
            d = PG.dist(p, polys)
            if d >= rho:
                return p, d
    return None


def has_positive_length(cmds):
    for sp in PG.interpret(cmds):
        for s in sp.segs:
            pts = PG.seg_points(s)
            if any(abs(p[0] - pts[0][0]) + abs(p[1] - pts[0][1]) > 1e-6 for p in pts[1:]):
                return True
            if s[0] == "A" and s[1] != s[7]:
                return True
    return False


def has_capped_dot(cmds):
    """A zero-length subpath that has a drawing command (`M x,y Z`, `M x,y L x,y`): SVG strokes it
    as a dot when the line cap is round or square."""
    for sp in PG.interpret(cmds):
        if sp.implicit:
            continue
        drawn = bool(sp.segs) or sp.closed
        if drawn and all(_seglen(sg) == 0 for sg in sp.segs):
            return True
    return False


def ground_truth(shape):
    """-> ("paints", why) | ("unknown", why) | ("out_of_domain", why)"""
    p = resolve_props(shape)
    if any(p[k] is None for k in ("fill-opacity", "stroke-width", "stroke-opacity", "opacity")):
        return "out_of_domain", "unparsable number"
    cmds = shape_cmds(shape)
    if cmds is None:
        return "out_of_domain", "path data not in the grammar"
    if any(not all(map(math.isfinite, a)) for _, a in cmds):
        return "out_of_domain", "non-finite"
    if p["display"] == "none":
        return "nothing", "display none"
    op = max(0.0, min(1.0, p["opacity"]))
    if op == 0:
        return "nothing", "opacity 0"
    fill_visible = p["fill"] != "none" and max(0.0, min(1.0, p["fill-opacity"])) * op > 0
    stroke_visible = p["stroke"] != "none" and max(0.0, min(1.0, p["stroke-opacity"])) * op > 0 and p["stroke-width"] > 0
    if not fill_visible and not stroke_visible:
        return "nothing", "no visible paint"
    if stroke_visible and has_positive_length(cmds):
        return "paints", "visible stroke on a segment of positive length"
    if stroke_visible and p.get("stroke-linecap") in ("round", "square") and has_capped_dot(cmds):
        return "paints", "visible stroke with a round/square cap on a zero-length subpath (a dot)"
    if fill_visible:
        rule = p["fill-rule"] if p["fill-rule"] in ("nonzero", "evenodd") else "nonzero"
        disc = interior_disc(cmds, rule)
        if disc:
            return "paints", f"interior point {disc[0]} with clearance {disc[1]:.4g} under {rule}"
    return "unknown", ""


def engine_collapses_cmds(cmds, rule):
    """Attribution only: does skia-pathops' simplify, called directly from the harness on the
    reference interpretation of the outline, return a path of zero area?"""
    import pathops
    from picomon.ref import stroke as RST

    try:
        path = RST.engine_path(cmds)
        path.fillType = pathops.FillType.EVEN_ODD if rule == "evenodd" else pathops.FillType.WINDING
        path.simplify(fix_winding=True)
        return path.area == 0
    except Exception:
        return False


def engine_collapses(shape):
    try:
        p = resolve_props(shape)
        rule = p["fill-rule"] if p["fill-rule"] in ("nonzero", "evenodd") else "nonzero"
        return engine_collapses_cmds(shape_cmds(shape), rule)
    except Exception:
        return False


def _subpath_cmds(sp):
    out = [("M", tuple(sp.start))]
    for sg in sp.segs:
        if sg[0] == "A":
            out.append(("A", tuple(sg[2:7]) + tuple(sg[7])))
        else:
            out.append((sg[0], tuple(v for pt in sg[2:] for v in pt)))
    if sp.closed:
        out.append(("Z", ()))
    return out


def describe(shape):
    import dataclasses

    parts = []
    for f in dataclasses.fields(shape):
        v = getattr(shape, f.name)
        d = f.default
        if v != d and not (isinstance(d, float) and d != d):
            parts.append(f"{f.name}={v!r}")
    return f"<{type(shape).tag} " + " ".join(parts) + ">"


INSTALLED = False


def install(empty_subpaths=True):
    global INSTALLED
    from picosvg import svg_types as T

    INSTALLED = True

    def make(orig):
        def might_paint(self):
            attach.count(NAME)
            res = orig(self)
            if STATE["judge"]:
                key = describe(self)
                seen = STATE["seen"]
                if seen is None or key not in seen:
                    if seen is not None:
                        seen.add(key)
                    try:
                        gt, why = ground_truth(self)
                    except Exception as e:
                        if events.is_harness_exc(e):
                            raise
                        gt, why = "inconclusive", repr(e)
                    events.COUNT[f"{NAME}.truth_{gt}.answer_{bool(res)}"] += 1
                    if gt == "paints" and not res:
                        mech = "skia-simplify-empties-painted-outline" if why.startswith("interior point") and engine_collapses(self) else None
                        events.emit(NAME, "violation", rule="false_negative", sig="might_paint:false_negative" + (f":{mech}" if mech else ""), mech=mech,
                                    msg=f"might_paint() is False for {key}, which paints: {why}",
                                    replay={"kind": "shape", "tag": type(self).tag, "fields": _fields(self)})
                    else:
                        events.emit(NAME, "ok" if gt in ("paints", "nothing") else gt)
                        if gt in ("paints", "nothing"):
                            events.NT.add(h8("mp", key))
            return res

        return might_paint

    attach.wrap_method(T.SVGShape, "might_paint", make)

    if not empty_subpaths:
        return

    def make_res(orig):
        def remove_empty_subpaths(self, inplace=False):
            attach.count("remove_empty_subpaths")
            before = _copy_fields(self)
            res = orig(self, inplace=inplace)
            if STATE["judge"]:
                try:
                    judge_remove_empty(before, res.d)
                except Exception as e:
                    if events.is_harness_exc(e):
                        raise
                    events.emit("remove_empty_subpaths", "inconclusive")
            return res

        return remove_empty_subpaths

    attach.wrap_method(T.SVGPath, "remove_empty_subpaths", make_res)


def _fields(shape):
    import dataclasses

    out = {}
    for f in dataclasses.fields(shape):
        v = getattr(shape, f.name)
        out[f.name] = v if isinstance(v, (str, int, float)) else str(v)
    return out


class _Snap:
    pass


def _copy_fields(path):
    s = _Snap()
    for k in ("d", "style", "fill", "fill_rule", "fill_opacity", "stroke", "stroke_width", "stroke_opacity", "opacity", "display", "stroke_linecap"):
        setattr(s, k, getattr(path, k))
    s.tag = "path"
    return s


def judge_remove_empty(before, after_d):
    """Rendering of the path must not change: same inside-ness at sample points away
    from edges (fill), and no stroked segment of positive length may disappear."""
    p = resolve_props(before)
    b = G.parse(before.d)
    a = G.parse(after_d) if after_d.strip() else []
    if a is None:
        a2 = G.parse("M0,0 " + after_d)
        a = a2[1:] if a2 else None
    if b is None or a is None or any(x is None for x in (p["opacity"], p["fill-opacity"], p["stroke-opacity"], p["stroke-width"])):
        events.emit("remove_empty_subpaths", "out_of_domain")
        return
    if any(not all(map(math.isfinite, x)) for _, x in b):
        events.emit("remove_empty_subpaths", "out_of_domain")
        return
    rep = {"kind": "remove_empty", "fields": {k: v for k, v in vars(before).items() if k != "tag"}}
    op = max(0.0, min(1.0, p["opacity"]))
    displayed = p["display"] != "none" and op > 0
    fill_visible = displayed and p["fill"] != "none" and max(0.0, min(1.0, p["fill-opacity"])) > 0
    stroke_visible = displayed and p["stroke"] != "none" and max(0.0, min(1.0, p["stroke-opacity"])) > 0 and p["stroke-width"] > 0
    pb = [q for q in PG.flatten(b) if len(q) >= 2]
    pa = [q for q in PG.flatten(a) if len(q) >= 2]
    decided = 0
    if fill_visible and pb:
        rule = p["fill-rule"] if p["fill-rule"] in ("nonzero", "evenodd") else "nonzero"
        xs = [q[0] for pl in pb for q in pl]
        ys = [q[1] for pl in pb for q in pl]
        x0, x1, y0, y1 = min(xs), max(xs), min(ys), max(ys)
        ext = max(x1 - x0, y1 - y0)
        if ext > 0:
            eps = 0.004 * ext
            rng = random.Random(h8(before.d))
            for _ in range(150):
                pt = (rng.uniform(x0, x1), rng.uniform(y0, y1))
                if PG.dist(pt, pb) < eps:
                    continue
                decided += 1
                ib = PG.inside(pt, pb, rule)
                ia = PG.inside(pt, pa, rule) if pa else False
                if ib != ia:
                    mech = None
                    if ib and not ia:
                        # a subpath that alone covers the point, for which the engine's simplify returns nothing?
                        for sp in PG.interpret(b):
                            sc = _subpath_cmds(sp)
                            spl = [q for q in PG.flatten(sc) if len(q) >= 2]
                            if spl and PG.inside(pt, spl, rule) and PG.dist(pt, spl) >= eps and engine_collapses_cmds(sc, rule):
                                mech = "skia-simplify-empties-painted-outline"
                                break
                    events.emit("remove_empty_subpaths", "violation", rule="fill_changed", sig="remove_empty_subpaths:fill_changed" + (f":{mech}" if mech else ""), mech=mech,
                                msg=f"remove_empty_subpaths on d={before.d!r} ({rule}) gives {after_d!r}: point {pt} was {'inside' if ib else 'outside'} and is now {'inside' if ia else 'outside'}",
                                replay=rep)
                    return
    if stroke_visible:
        # every subpath with a segment of positive length must survive
        dots = p.get("stroke-linecap") in ("round", "square")

        def strokable(s):
            return any(_seglen(sg) > 1e-6 for sg in s.segs) or (dots and not s.implicit and (s.closed or s.segs) and all(_seglen(sg) == 0 for sg in s.segs))

        keep = [s for s in PG.interpret(b) if strokable(s)]
        have = [s for s in PG.interpret(a) if strokable(s)]
        decided += 1
        if len(have) < len(keep):
            events.emit("remove_empty_subpaths", "violation", rule="stroke_lost", sig="remove_empty_subpaths:stroke_lost",
                        mech="stroked-open-subpath-dropped",
                        msg=f"remove_empty_subpaths on stroked path d={before.d!r} (stroke={p['stroke']}, width={p['stroke-width']}) gives {after_d!r}: "
                            f"{len(keep) - len(have)} subpath(s) with visible stroke were dropped", replay=rep)
            return
    events.emit("remove_empty_subpaths", "ok" if decided else "vacuous")
    if decided:
        events.NT.add(h8("res", before.d, before.fill_rule, before.stroke))


def _seglen(sg):
    pts = PG.seg_points(sg)
    return max(abs(p[0] - pts[0][0]) + abs(p[1] - pts[0][1]) for p in pts)
