"""Recorder at the engine boundary svg_pathops.stroke: the exact arguments picosvg hands to
skia-pathops and the outline it gets back.  Used by C04's classifier to attribute a deviation
to the engine's own simplify step - and only when the arguments are the ones SVG prescribes."""
from picomon import attach

CALLS = []
_installed = False
STATE = {"record": False}


def install():
    global _installed
    if _installed:
        return
    _installed = True
    from picosvg import svg_pathops as SP

    def make(orig):
        def stroke(svg_cmds, svg_linecap, svg_linejoin, stroke_width, stroke_miterlimit, tolerance, dash_array=(), dash_offset=0.0):
            cmds = [(c, tuple(float(v) for v in a)) for c, a in svg_cmds]
            res = [(c, tuple(float(v) for v in a)) for c, a in orig(cmds, svg_linecap, svg_linejoin, stroke_width, stroke_miterlimit, tolerance, dash_array, dash_offset)]
            if STATE["record"]:
                attach.count("strokemon")
                CALLS.append(dict(cmds=cmds, cap=svg_linecap, join=svg_linejoin, width=float(stroke_width), miterlimit=float(stroke_miterlimit),
                                  tolerance=float(tolerance), dashes=[float(v) for v in dash_array], offset=float(dash_offset), result=res))
            return iter(res)

        return stroke

    attach.wrap_function(SP, "stroke", make)


def engine(call, simplify):
    """Re-run the engine on the recorded arguments, with or without its simplify step."""
    import pathops

    caps = {"butt": pathops.LineCap.BUTT_CAP, "round": pathops.LineCap.ROUND_CAP, "square": pathops.LineCap.SQUARE_CAP}
    joins = {"miter": pathops.LineJoin.MITER_JOIN, "round": pathops.LineJoin.ROUND_JOIN, "bevel": pathops.LineJoin.BEVEL_JOIN}
    p = pathops.Path()
    for c, a in call["cmds"]:
        if c == "M":
            p.moveTo(*a)
        elif c == "L":
            p.lineTo(*a)
        elif c == "Q":
            p.quadTo(*a)
        elif c == "C":
            p.cubicTo(*a)
        elif c == "Z":
            p.close()
    p.stroke(call["width"], caps[call["cap"]], joins[call["join"]], call["miterlimit"], list(call["dashes"]), call["offset"])
    p.convertConicsToQuads(call["tolerance"])
    if simplify:
        try:
            p.simplify(fix_winding=True)
        except Exception:
            pass
    names = {pathops.PathVerb.MOVE: "M", pathops.PathVerb.LINE: "L", pathops.PathVerb.QUAD: "Q", pathops.PathVerb.CUBIC: "C", pathops.PathVerb.CLOSE: "Z"}
    return [(names[v], tuple(float(t) for pt in pts for t in pt)) for v, pts in p]
