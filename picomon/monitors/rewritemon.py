"""Monitors on the path rewrite methods (C09): every call is judged against the reference
interpreter: same subpaths, start/end, closedness, same curve; target form reached.
"""
import math

from picomon import attach, events
from picomon.driver import h8
from picomon.ref import pathgrammar as G, pathgeom as PG, curvecmp as CC

NAME = "rewrite"
STATE = {"judge": True, "sample_cap": None, "seen": None}

TARGET = {
    "absolute": lambda L: all(c.isupper() for c in L),
    "absolute_moveto": lambda L: all(c != "m" for c in L),
    "relative": lambda L: all(c.islower() for c in L[1:]) and (not L or L[0] == "M"),
    "explicit_lines": lambda L: not any(c in "HhVv" for c in L),
    "expand_shorthand": lambda L: not any(c in "SsTt" for c in L),
    "arcs_to_cubics": lambda L: not any(c in "Aa" for c in L),
    "as_cmd_seq": lambda L: all(c in "MLQCZ" for c in L),
}
EXACT = {"absolute", "absolute_moveto", "relative", "explicit_lines", "expand_shorthand", "move"}


def _letters(cmds):
    return [c for c, _ in cmds]


def _explicit_after_arc(before):
    """before with every S/T that directly follows an arc made explicit (control point =
    current point, as SVG prescribes after a non-curve command).  Absolute output."""
    out = []
    cur = (0.0, 0.0)
    start = (0.0, 0.0)
    prev = None
    for i, (c, a) in enumerate(before):
        C = c.upper()
        rel = c.islower() and not (i == 0 and c == "m")
        ox, oy = cur if rel else (0.0, 0.0)
        if C in "ST" and prev in ("A", "a"):
            if C == "S":
                out.append(("C", (cur[0], cur[1], a[0] + ox, a[1] + oy, a[2] + ox, a[3] + oy)))
                cur = (a[2] + ox, a[3] + oy)
            else:
                out.append(("Q", (cur[0], cur[1], a[0] + ox, a[1] + oy)))
                cur = (a[0] + ox, a[1] + oy)
            prev = c
            continue
        out.append((c, a))
        if C == "Z":
            cur = start
        elif C == "H":
            cur = (a[0] + ox, cur[1])
        elif C == "V":
            cur = (cur[0], a[0] + oy)
        else:
            cur = (a[-2] + ox, a[-1] + oy)
            if C == "M":
                start = cur
        prev = c
    return out


def classify(method, before, after_cmds, why, rerun=None):
    """Mechanism classifiers for the ledger (predicates over the witness)."""
    letters = _letters(before)
    # S after a quadratic / T after a cubic (wrong-family reflection)
    if method in ("expand_shorthand", "as_cmd_seq", "as_path"):
        for i in range(1, len(letters)):
            if letters[i] in "Ss" and letters[i - 1] in "QqTt":
                return "shorthand-reflects-other-family"
            if letters[i] in "Tt" and letters[i - 1] in "CcSs":
                return "shorthand-reflects-other-family"
    if method == "arcs_to_cubics" and rerun is not None:
        hit = any(letters[i] in "SsTt" and letters[i - 1] in "Aa" for i in range(1, len(letters)))
        if hit:
            # confirm the mechanism: with those shorthands made explicit the same real
            # method must be correct on the same path
            from picomon.gen.paths import render

            b2 = _explicit_after_arc(before)
            try:
                a2 = rerun(render(b2))
                ok, _, _ = CC.same_curve(before, a2, curve_tol=3e-4 * CC.max_arc_radius(before))
            except Exception:
                ok = False
            if ok:
                return "shorthand-after-converted-arc"
    if method in ("subpaths", "remove_empty_subpaths"):
        for i in range(1, len(letters)):
            if letters[i - 1] in "Zz" and letters[i] not in "MmZz":
                return "subpath-after-closepath-lacks-moveto"
    return None


def _emit(method, verdict, before_d=None, args=None, msg=None, rule=None, mech=None, extra=None):
    if verdict == "violation":
        events.emit(
            NAME,
            "violation",
            rule=rule,
            sig=f"{method}:{rule}" + (f":{mech}" if mech else ""),
            mech=mech,
            msg=f"{method}({args if args else ''}) on {before_d!r}: {msg}",
            method=method,
            d=before_d,
            args=args,
            extra=extra,
        )
    else:
        events.emit(NAME, verdict)
        events.COUNT[f"{NAME}.{method}.{verdict}"] += 1


def judge_rewrite(method, before_d, after_cmds, args=None, rerun=None):
    """after_cmds: exploded list produced by the real code."""
    before = G.parse(before_d)
    if before is None:
        _emit(method, "out_of_domain")
        return
    if any(not all(map(math.isfinite, a)) for _, a in before):
        _emit(method, "out_of_domain")
        return
    letters_after = _letters(after_cmds)
    tf = TARGET.get(method)
    if tf is not None and not tf(letters_after):
        _emit(method, "violation", before_d, args, f"target form not reached: {letters_after}", "target_form")
        return
    curve_tol = 0.0
    shift = (0.0, 0.0)
    if method in ("arcs_to_cubics", "as_cmd_seq"):
        curve_tol = 3e-4 * CC.max_arc_radius(before)
    if method == "move":
        shift = (float(args[0]), float(args[1]))
    try:
        ok, why, info = CC.same_curve(before, after_cmds, curve_tol=curve_tol, shift=shift)
    except Exception as e:  # reference could not interpret: not a verdict
        _emit(method, "inconclusive")
        return
    if ok:
        _emit(method, "ok")
        if len([c for c in letters_after if c not in "MmZz"]) >= 2:
            events.NT.add(h8(method, tuple(_letters(before))))
        return
    mech = classify(method, before, after_cmds, why, rerun)
    _emit(method, "violation", before_d, args, f"{why}; after={_fmt(after_cmds)}", "curve_changed", mech)


def _fmt(cmds):
    return " ".join(c + ",".join(f"{v:g}" for v in a) for c, a in cmds)[:400]


def judge_round(before_d, after_d, ndigits):
    b = G.parse(before_d)
    a = G.parse(after_d)
    if b is None:
        _emit("round_floats", "out_of_domain")
        return
    if a is None:
        _emit("round_floats", "violation", before_d, (ndigits,), f"output {after_d!r} not in the path grammar", "bad_output")
        return
    if _letters(a) != _letters(b):
        _emit("round_floats", "violation", before_d, (ndigits,), f"command letters changed: {after_d!r}", "letters_changed")
        return
    lim = 0.5 * 10.0 ** (-ndigits)
    for (c, xa), (_, xb) in zip(a, b):
        if len(xa) != len(xb):
            _emit("round_floats", "violation", before_d, (ndigits,), f"arity changed: {after_d!r}", "letters_changed")
            return
        for k, (va, vb) in enumerate(zip(xa, xb)):
            if not math.isfinite(vb):
                continue
            if c in "aA" and k in (3, 4):
                if va != vb:
                    _emit("round_floats", "violation", before_d, (ndigits,), f"arc flag changed: {after_d!r}", "flag_changed")
                    return
                continue
            slack = lim * 1e-9 + 4 * math.ulp(abs(vb) + lim)
            if abs(va - vb) > lim + slack:
                _emit("round_floats", "violation", before_d, (ndigits,), f"{vb!r} moved to {va!r} (> half unit in the last place, n={ndigits})", "moved_too_far")
                return
            if round(va, ndigits) != va:
                _emit("round_floats", "violation", before_d, (ndigits,), f"{va!r} is not rounded to {ndigits} digits", "not_rounded")
                return
    _emit("round_floats", "ok")
    if sum(len(x) for _, x in b) >= 2:
        events.NT.add(h8("round", ndigits, before_d))


def judge_subpaths(before_d, strings):
    before = G.parse(before_d)
    if before is None or any(not all(map(math.isfinite, a)) for _, a in before):
        _emit("subpaths", "out_of_domain")
        return
    scale = CC.coord_scale(before)
    tol = 1e-9 * (1 + scale)
    ref = [s for s in PG.interpret(before) if not s.zero_extent(tol)]
    got = []
    for s in strings:
        cmds = G.parse(s)
        if cmds is None:
            # a subpath string without a leading moveto is not in the grammar; interpret
            # it the way its consumer does: starting at the origin
            cmds = G.parse("M0,0 " + s)
            if cmds is None:
                _emit("subpaths", "violation", before_d, None, f"subpath string {s!r} unparsable", "bad_output")
                return
            cmds = cmds[1:]
        parts = PG.interpret(cmds)
        if len(parts) > 1:
            _emit("subpaths", "violation", before_d, None, f"the string {s!r} returned by subpaths() holds {len(parts)} subpaths, not one", "not_split")
            return
        got.extend(x for x in parts if not x.zero_extent(tol))
    if len(got) != len(ref):
        mech = classify("subpaths", before, None, "")
        _emit("subpaths", "violation", before_d, None, f"{len(ref)} non-empty subpaths in the path, {len(got)} in {strings!r}", "count", mech)
        return
    for i, (r, g) in enumerate(zip(ref, got)):
        ok, why, _ = CC.same_subpath(r, g, tol, 0.0, 1e-6 * (1 + scale))
        if not ok:
            mech = classify("subpaths", before, None, why)
            _emit("subpaths", "violation", before_d, None, f"subpath {i} interpreted on its own differs: {why}; strings={strings!r}", "standalone_differs", mech)
            return
    _emit("subpaths", "ok")
    if len(ref) >= 2:
        events.NT.add(h8("subpaths", tuple(_letters(before))))


def judge_remove_empty(before_d, after_d):
    before = G.parse(before_d)
    after = G.parse(after_d) if after_d.strip() else []
    if before is None or any(not all(map(math.isfinite, a)) for _, a in before):
        _emit("remove_empty_subpaths", "out_of_domain")
        return
    if after is None:
        # kept subpaths may lack a moveto (see subpaths); interpret like the consumer
        after = G.parse("M0,0 " + after_d)
        after = after[1:] if after else None
    if after is None:
        _emit("remove_empty_subpaths", "violation", before_d, None, f"output {after_d!r} unparsable", "bad_output")
        return
    scale = CC.coord_scale(before)
    tol = 1e-9 * (1 + scale)
    ref = [s for s in PG.interpret(before) if not s.zero_extent(tol)]
    got = [s for s in PG.interpret(after) if not s.zero_extent(tol)]
    j = 0
    for g in got:
        while j < len(ref):
            ok, why, _ = CC.same_subpath(ref[j], g, tol, 0.0, 1e-6 * (1 + scale))
            j += 1
            if ok:
                break
        else:
            mech = classify("remove_empty_subpaths", before, None, "")
            _emit("remove_empty_subpaths", "violation", before_d, None,
                  f"kept subpath starting {g.start} is not a subpath of the input; output={after_d!r}", "kept_not_in_input", mech)
            return
    _emit("remove_empty_subpaths", "ok")


def _materialise(path):
    return [(c, tuple(a)) for c, a in path]


def install(methods=None):
    from picosvg import svg_types as T

    P = T.SVGPath

    def wrap_inplace(name):
        def make(orig):
            def w(self, *a, **kw):
                attach.count(NAME)
                before_d = self.d
                res = orig(self, *a, **kw)
                if STATE["judge"] and _sample(name, before_d):
                    try:
                        after = _materialise(res)
                    except ValueError:
                        after = None
                    if after is not None:
                        rerun = None
                        if name == "arcs_to_cubics":
                            rerun = lambda d2: _materialise(orig(P(d=d2)))
                        judge_rewrite(name, before_d, after, a[:2] if name == "move" else None, rerun)
                return res

            return w

        attach.wrap_method(P, name, make)

    for m in ("absolute", "absolute_moveto", "relative", "explicit_lines", "expand_shorthand", "arcs_to_cubics", "move"):
        if methods is None or m in methods:
            wrap_inplace(m)

    if methods is None or "round_floats" in methods:
        def make_round(orig):
            def round_floats(self, ndigits, inplace=False):
                attach.count(NAME)
                before_d = self.d
                res = orig(self, ndigits, inplace=inplace)
                if STATE["judge"] and _sample("round_floats", before_d + str(ndigits)):
                    judge_round(before_d, res.d, ndigits)
                return res

            return round_floats

        attach.wrap_method(P, "round_floats", make_round)

    if methods is None or "subpaths" in methods:
        def make_sub(orig):
            def subpaths(self):
                attach.count(NAME)
                before_d = self.d
                res = orig(self)
                if STATE["judge"] and _sample("subpaths", before_d):
                    judge_subpaths(before_d, list(res))
                return res

            return subpaths

        attach.wrap_method(P, "subpaths", make_sub)

    if methods is None or "remove_empty_subpaths" in methods:
        def make_res(orig):
            def remove_empty_subpaths(self, inplace=False):
                attach.count(NAME)
                before_d = self.d
                res = orig(self, inplace=inplace)
                if STATE["judge"] and _sample("remove_empty_subpaths", before_d):
                    judge_remove_empty(before_d, res.d)
                return res

            return remove_empty_subpaths

        attach.wrap_method(P, "remove_empty_subpaths", make_res)

    if methods is None or "as_cmd_seq" in methods:
        def make_acs(orig):
            def as_cmd_seq(self):
                attach.count(NAME)
                res = orig(self)
                if STATE["judge"] and isinstance(self, P) and _sample("as_cmd_seq", self.d):
                    try:
                        after = _materialise(res)
                    except ValueError:
                        after = None
                    if after is not None:
                        judge_rewrite("as_cmd_seq", self.d, after)
                return res

            return as_cmd_seq

        attach.wrap_method(T.SVGShape, "as_cmd_seq", make_acs)


def _sample(method, key):
    seen = STATE["seen"]
    if seen is None:
        return True
    k = (method, key)
    if k in seen:
        return False
    cap = STATE["sample_cap"]
    if cap is not None and len(seen) >= cap:
        return False
    seen.add(k)
    return True
