"""Monitor on picosvg.svg_reuse.affine_between (C20).

Oracle: a reported transform T, applied exactly to the first shape's outline (reference
interpretation), must reproduce the second outline command for command within the
tolerance (relative-argument form), arcs compared as point sets.
"""
import math

from picomon import attach, events
from picomon.driver import h8
from picomon.ref import pathgrammar as G, pathgeom as PG

NAME = "affine_between"
STATE = {"judge": True}


def tokens(cmds):
    """Exploded commands -> list of tokens with absolute points:
    ("M", p) ("L", p0, p1) ("Q", p0, c, p1) ("C", p0, c1, c2, p1) ("A", p0, rx, ry, phi, fa, fs, p1) ("Z", p0, start)"""
    out = []
    cur = (0.0, 0.0)
    start = (0.0, 0.0)
    prev_c = prev_q = None
    for i, (cmd, a) in enumerate(cmds):
        C = cmd.upper()
        rel = cmd.islower() and not (i == 0 and cmd == "m")
        ox, oy = cur if rel else (0.0, 0.0)
        npc = npq = None
        if C == "M":
            p = (a[0] + ox, a[1] + oy)
            out.append(("M", cur, p))
            start = p
        elif C == "Z":
            out.append(("Z", cur, start))
            p = start
        elif C == "L":
            p = (a[0] + ox, a[1] + oy)
            out.append(("L", cur, p))
        elif C == "H":
            p = (a[0] + ox, cur[1])
            out.append(("L", cur, p))
        elif C == "V":
            p = (cur[0], a[0] + oy)
            out.append(("L", cur, p))
        elif C == "C":
            p = (a[4] + ox, a[5] + oy)
            npc = (a[2] + ox, a[3] + oy)
            out.append(("C", cur, (a[0] + ox, a[1] + oy), npc, p))
        elif C == "S":
            c1 = (2 * cur[0] - prev_c[0], 2 * cur[1] - prev_c[1]) if prev_c else cur
            p = (a[2] + ox, a[3] + oy)
            npc = (a[0] + ox, a[1] + oy)
            out.append(("C", cur, c1, npc, p))
        elif C == "Q":
            p = (a[2] + ox, a[3] + oy)
            npq = (a[0] + ox, a[1] + oy)
            out.append(("Q", cur, npq, p))
        elif C == "T":
            npq = (2 * cur[0] - prev_q[0], 2 * cur[1] - prev_q[1]) if prev_q else cur
            p = (a[0] + ox, a[1] + oy)
            out.append(("Q", cur, npq, p))
        elif C == "A":
            p = (a[5] + ox, a[6] + oy)
            out.append(("A", cur, a[0], a[1], a[2], int(a[3]), int(a[4]), p))
        else:
            raise ValueError(cmd)
        cur = p
        prev_c, prev_q = npc, npq
    return out


def _map(T, p):
    return (T[0] * p[0] + T[2] * p[1] + T[4], T[1] * p[0] + T[3] * p[1] + T[5])


def _arc_samples(tok, n=12):
    pr = PG.arc_center(tok[1], tok[2], tok[3], tok[4], tok[5], tok[6], tok[7])
    if pr is None:
        return [tok[1]]
    if pr == ("line",):
        return [tok[1], tok[7]]
    return [tok[1]] + [PG.arc_point(pr, pr["th1"] + pr["dth"] * i / n) for i in range(1, n)] + [tok[7]]


def verify(T, d1, d2, tolerance):
    """-> (ok, reason, stats)"""
    c1, c2 = G.parse(d1), G.parse(d2)
    if c1 is None or c2 is None:
        return None, "not in grammar", None
    t1, t2 = tokens(c1), tokens(c2)
    if [t[0] for t in t1] != [t[0] for t in t2]:
        return False, f"command structure differs: {[t[0] for t in t1]} vs {[t[0] for t in t2]}", None
    scale = 1.0
    for t in t1 + t2:
        for p in t[1:]:
            if isinstance(p, tuple):
                scale = max(scale, abs(p[0]), abs(p[1]))
    tmag = max(1.0, max(abs(v) for v in T[:4]))
    slack = 1e-12 * scale * tmag + tolerance * 1e-6  # float64 round-off only: a looser, magnitude-proportional slack would hide relative tolerances
    lim = tolerance + slack
    worst = 0.0
    for i, (a, b) in enumerate(zip(t1, t2)):
        k = a[0]
        if k == "A":
            pa0, pa1 = _map(T, a[1]), _map(T, a[7])
            va = (pa1[0] - pa0[0], pa1[1] - pa0[1])
            vb = (b[7][0] - b[1][0], b[7][1] - b[1][1])
            dv = max(abs(va[0] - vb[0]), abs(va[1] - vb[1]))
            worst = max(worst, dv)
            if dv > lim:
                return False, f"command {i} (A): end vector {va} vs {vb}", None
            sa = [_map(T, p) for p in _arc_samples(a)]
            sb = _arc_samples(b, 48)
            off = (b[1][0] - pa0[0], b[1][1] - pa0[1])  # compare shapes relative to their own start points
            for p in sa:
                q = (p[0] + off[0], p[1] + off[1])
                dd = PG.dist(q, [sb], closed=False)
                if dd > 3 * lim + 0.01 * max(abs(b[2]), abs(b[3])):
                    return False, f"command {i} (A): transformed arc point {q} is {dd:.4g} from the second shape's arc", None
            continue
        if k == "Z":
            continue  # closepath has no arguments; drift is bounded by the end-point check below
        pts_a = [_map(T, p) for p in a[1:]]
        pts_b = list(b[1:])
        oa, ob = pts_a[0], pts_b[0]
        if i == 0 and k == "M":
            oa = ob = (0.0, 0.0)  # the initial moveto is absolute
        for pa, pb in zip(pts_a[1:], pts_b[1:]):
            va = (pa[0] - oa[0], pa[1] - oa[1])
            vb = (pb[0] - ob[0], pb[1] - ob[1])
            dv = max(abs(va[0] - vb[0]), abs(va[1] - vb[1]))
            worst = max(worst, dv)
            if dv > lim:
                return False, f"command {i} ({k}): relative argument {va} vs {vb} differs by {dv:.6g} > tolerance {tolerance}", None
    # absolute drift of end points
    n = len(t1)
    for i, (a, b) in enumerate(zip(t1, t2)):
        pa, pb = _map(T, a[-1]), b[-1]
        if max(abs(pa[0] - pb[0]), abs(pa[1] - pb[1])) > n * lim + slack:
            return False, f"command {i}: end point drifts {pa} vs {pb}", None
    return True, "", {"worst": worst, "n": n}


def install():
    from picosvg import svg_reuse as R

    def make(orig):
        def affine_between(s1, s2, tolerance):
            attach.count(NAME)
            res = orig(s1, s2, tolerance)
            if STATE["judge"]:
                try:
                    _judge(s1, s2, tolerance, res)
                except Exception as e:
                    if events.is_harness_exc(e):
                        raise
                    events.emit(NAME, "inconclusive")
            return res

        return affine_between

    attach.wrap_function(R, "affine_between", make)


LAST = {}


def _judge(s1, s2, tolerance, res):
    LAST.clear()
    LAST["result"] = res
    if res is None:
        events.emit(NAME, "none")
        return
    d1, d2 = s1.as_path().d, s2.as_path().d
    T = tuple(float(v) for v in res)
    ok, why, st = verify(T, d1, d2, tolerance)
    if ok is None:
        events.emit(NAME, "out_of_domain")
        return
    if not ok:
        events.emit(NAME, "violation", rule="reported_transform_wrong", sig="reported_transform_wrong",
                    msg=f"affine_between reported {T} (tolerance {tolerance}) for\n  s1={d1!r}\n  s2={d2!r}\n  but: {why}",
                    replay={"kind": "pair", "d1": d1, "d2": d2, "tolerance": tolerance})
        return
    events.emit(NAME, "ok")
    if T != (1.0, 0.0, 0.0, 1.0, 0.0, 0.0):
        events.NT.add(h8("ab", d1, d2, tolerance))
        events.COUNT[f"{NAME}.nonidentity_verified"] += 1
