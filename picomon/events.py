"""Per-process event log shared by monitors and drivers.

Monitors never raise into the code under observation: they append verdict events here
(and bump counters); the driver drains the log after each case.
"""
from collections import Counter

LOG = []  # violation / notable events: dicts
COUNT = Counter()  # verdict counters: "<monitor>.<verdict>"
NT = set()  # hashes of non-trivial observations
MAX_LOG = 2000


def emit(monitor, verdict, **kw):
    COUNT[f"{monitor}.{verdict}"] += 1
    if verdict == "violation":
        if len(LOG) < MAX_LOG:
            kw["monitor"] = monitor
            LOG.append(kw)


def drain():
    out = list(LOG)
    del LOG[:]
    return out


def take_counts():
    c = dict(COUNT)
    COUNT.clear()
    return c


def take_nt():
    s = list(NT)
    NT.clear()
    return s


_HARNESS = {"CaseTimeout", "StepBudgetExceeded"}


def is_harness_exc(e):
    """Exceptions injected by the harness itself (watchdog, step budget, rlimit)."""
    return type(e).__name__ in _HARNESS or isinstance(e, MemoryError)
