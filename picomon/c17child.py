"""Child process for C17: convert ONE document under a logical step budget.
stdin: JSON {"doc":..., "budget": int|null, "ndigits": 3, "allow_text": false, "drop_unsupported": false, "rlimit_gb": 3}
stdout: one JSON line {"outcome": returned|raised|budget, "exc": ..., "steps": n, "output": text|null, "calls": {qualname: n}}
"""
import json
import sys
import time


def main():
    job = json.load(sys.stdin)
    try:
        import resource

        lim = int(job.get("rlimit_gb", 3)) << 30
        resource.setrlimit(resource.RLIMIT_AS, (lim, lim))
        # an orphan (parent killed by its own budget) must not spin forever; the verdict never rests on this
        resource.setrlimit(resource.RLIMIT_CPU, (900, 900))
    except Exception:
        pass
    from picomon import bootstrap

    bootstrap.setup()
    from picomon import reach
    from picosvg.svg import SVG

    sb = reach.StepBudget(job.get("budget"))
    calls = {}
    # light-weight reach: count calls of the functions the hostile constructs target
    watch = {"_resolve_use", "_resolve_clip_path", "_apply_gradient_template", "fromstring", "checkpicosvg", "_new_id"}
    t0 = time.time()
    res = {"outcome": None, "exc": None, "output": None}
    sb.start()
    orig_tick = sb._on_start

    def on_start(code, off):
        n = code.co_name
        if n in watch:
            calls[n] = calls.get(n, 0) + 1
        return orig_tick(code, off)

    import sys as _s

    _s.monitoring.register_callback(reach.TOOL_STEPS, _s.monitoring.events.PY_START, on_start)
    try:
        svg = SVG.fromstring(job["doc"])
        out = svg.topicosvg(ndigits=job.get("ndigits", 3), allow_text=job.get("allow_text", False), drop_unsupported=job.get("drop_unsupported", False))
        text = out.tostring()
        res["outcome"] = "returned"
        res["output"] = text
    except reach.StepBudgetExceeded as e:
        res["outcome"] = "budget"
    except MemoryError:
        res["outcome"] = "memory"
    except RecursionError as e:
        res["outcome"] = "raised"
        res["exc"] = "RecursionError"
    except BaseException as e:
        res["outcome"] = "raised"
        res["exc"] = type(e).__name__ + ":" + str(e)[:120]
    finally:
        steps = sb.stop()
    res["steps"] = steps
    res["calls"] = calls
    res["t"] = round(time.time() - t0, 3)
    sys.stdout.write(json.dumps(res) + "\n")
    sys.stdout.flush()


if __name__ == "__main__":
    main()
