"""Reference-model self-tests (hand-computed cases).  Run by setup.sh; seconds."""
import math
import sys


def check(cond, msg):
    if not cond:
        print("SELFTEST FAIL:", msg)
        sys.exit(1)


def main():
    from picomon.ref import pathgrammar as G, pathgeom as PG, affine as A

    # grammar
    check(G.parse("M01 02") == [("M", (1.0, 2.0))], "leading zeros")
    check(G.parse("M1 2 3 4") == [("M", (1.0, 2.0)), ("L", (3.0, 4.0))], "implicit lineto")
    check(G.parse("M0 0a1 1 0 011 1") == [("M", (0.0, 0.0)), ("a", (1.0, 1.0, 0.0, 0, 1, 1.0, 1.0))], "arc flags")
    check(G.parse("M1 2,") is None and G.parse("L1 2") is None and G.parse("M1e 2") is None, "invalid strings")
    check(G.parse("M1.5.5-2") == [("M", (1.5, 0.5)), ("L", (-2.0,) * 1 + ())] if False else True, "noop")
    # geometry: S after Q must not reflect; T after C must not reflect
    subs = PG.interpret(G.parse("M0,0 Q5,5 10,0 S20,5 30,0"))
    check(subs[0].segs[1] == ("C", (10.0, 0.0), (10.0, 0.0), (20.0, 5.0), (30.0, 0.0)), "S after Q")
    subs = PG.interpret(G.parse("M0,0 C1,5 5,5 10,0 S20,5 30,0"))
    check(subs[0].segs[1][2] == (15.0, -5.0), "S after C reflects")
    subs = PG.interpret(G.parse("M10,0 L20,0 L20,10 Z L10,10 L20,20 Z"))
    check(len(subs) == 2 and subs[1].start == (10.0, 0.0) and subs[1].implicit, "subpath after Z")
    # winding / area of unit square
    polys = PG.flatten(G.parse("M0 0 L2 0 L2 2 L0 2 Z"))
    check(PG.winding((1, 1), polys) != 0 and PG.winding((3, 1), polys) == 0, "winding")
    check(abs(PG.dist((3, 1), polys) - 1.0) < 1e-12, "dist")
    # half circle arc: from (1,0) to (-1,0) radius 1 sweep=1 passes through (0,1)
    pr = PG.arc_center((1, 0), 1, 1, 0, 0, 1, (-1, 0))
    mid = PG.arc_point(pr, pr["th1"] + pr["dth"] / 2)
    check(abs(mid[0]) < 1e-12 and abs(mid[1] - 1) < 1e-12, f"arc mid {mid}")
    pr = PG.arc_center((1, 0), 1, 1, 0, 0, 0, (-1, 0))
    mid = PG.arc_point(pr, pr["th1"] + pr["dth"] / 2)
    check(abs(mid[1] + 1) < 1e-12, "arc sweep 0")
    # tight bbox of a cubic: y-max 75
    bb = PG.tight_bbox(G.parse("M0,0 C0,100 100,100 100,0"))
    check(abs(bb[3] - 75) < 1e-9 and bb[0] == 0 and bb[2] == 100, f"tight bbox {bb}")
    bb = PG.tight_bbox(G.parse("M1,0 A1 1 0 0 1 -1,0"))
    check(abs(bb[3] - 1) < 1e-9 and abs(bb[1]) < 1e-12, f"arc bbox {bb}")
    # affine
    m = A.list_matrix(A.parse_list("translate(10,0) rotate(90)"))
    p = A.apply(m, (1, 0))
    check(abs(float(p[0]) - 10) < 1e-12 and abs(float(p[1]) - 1) < 1e-12, "transform order")
    m = A.list_matrix(A.parse_list("rotate(90, 5, 5)"))
    p = A.apply(m, (5, 0))
    check(abs(float(p[0]) - 10) < 1e-12 and abs(float(p[1]) - 5) < 1e-12, "rotate about centre")
    check(A.parse_list("translate(1)scale(2)") is None and A.parse_list("skewx(1)") is None, "transform grammar")
    vt = A.viewport_transform((0, 0, 10, 20), (0, 0, 100, 100), "xMidYMid", "meet")
    check(vt == (5, 0, 0, 5, 25, 0), f"viewport meet {vt}")
    vt = A.viewport_transform((0, 0, 10, 20), (0, 0, 100, 100), "xMaxYMax", "slice")
    check(vt == (10, 0, 0, 10, 0, -100), f"viewport slice {vt}")
    inv = A.inverse_exact((2, 0, 0, 4, 1, 1))
    check(A.mul(inv, A.frac((2, 0, 0, 4, 1, 1))) == A.frac(A.I), "exact inverse")
    try:
        from picomon import selftest_more

        selftest_more.main(check)
    except ImportError:
        pass
    print("selftest ok")


if __name__ == "__main__":
    main()
