"""Driver base class: one subclass per property (picomon/drivers/cNN.py, class D).

A driver turns a (tier, seed) into a list of *cases* (small JSON-able descriptors),
runs each case in a worker process with its monitors attached, and returns a
CaseResult dict:

    {
      "evals": int,                 # oracle evaluations made by the deciding monitor
      "nt": [hash, ...] | int,      # distinct non-trivial observations (hash list) or a count
      "viol": [ {rule, sig, msg, replay: {...}, known: key|None}, ... ],
      "counters": {name: int},      # anything the driver wants summed
      "features": {name: int},      # workload feature histogram
      "sample": any | None,         # one written-out case for the evidence
      "monitor_evals": {monitor: int},
    }
"""
import hashlib
import json


def h8(*parts):
    m = hashlib.blake2b(digest_size=6)
    for p in parts:
        m.update(repr(p).encode())
        m.update(b"\0")
    return m.hexdigest()


class Driver:
    pid = "C00"
    title = ""
    level = "exploration"
    rule = ""
    assumptions = ()
    anchors = ()  # (module, qualname) for reach accounting
    deciding_monitors = ()  # names in attach.EVALS that must be > 0
    feature_floors = {}  # feature -> minimum count (tier -> dict allowed)
    nt_floor = {"quick": 2, "thorough": 2}
    time_budget = {"quick": 60, "thorough": 600}  # soft per-tier budget (s) for workers
    case_timeout = 120  # seconds per case (signal.alarm inside worker)
    use_reach = True

    def cases(self, tier, seed):
        raise NotImplementedError

    def setup_worker(self, tier, seed):
        """Attach monitors; called once per worker process after bootstrap."""

    def run_case(self, case):
        raise NotImplementedError

    def replay(self, replay):
        """Re-run a single witness; returns list of violation dicts."""
        raise NotImplementedError

    def extra_evidence(self, merged):
        return {}

    def postprocess(self, results, tier, seed):
        """Offline checker hook over all case results (e.g. C16).  Returns extra violations."""
        return []


def new_result():
    return {
        "evals": 0,
        "nt": [],
        "viol": [],
        "counters": {},
        "features": {},
        "sample": None,
    }


def bump(d, k, n=1):
    d[k] = d.get(k, 0) + n
