"""pytest plugin: run the repository's own tests with every function-level monitor attached.
Usage (nothing is added to /repo):
  cd /repo && PYTHONPATH=/verif:/verif/.deps /venv/bin/python -m pytest -p picomon.pytest_plugin -q -p no:cacheprovider
A monitor that fires here is either too strict or a defect the tests do not assert."""
import json
import os


def pytest_configure(config):
    from picomon import bootstrap

    bootstrap.setup()
    from picomon.monitors import parsemon, rewritemon, arcmon, affinemon, boolmon, reusemon, paintmon

    parsemon.SEEN = set()
    parsemon.install()
    rewritemon.STATE["seen"] = set()
    rewritemon.install()
    arcmon.STATE["seen"] = set()
    arcmon.install()
    affinemon.STATE["seen"] = set()
    affinemon.install()
    boolmon.STATE["cap"] = 3000
    boolmon.install()
    reusemon.install()
    paintmon.STATE["seen"] = set()
    paintmon.install()


def pytest_sessionfinish(session, exitstatus):
    from picomon import attach, events

    evs = events.drain()
    by = {}
    for e in evs:
        by.setdefault((e.get("monitor"), e.get("sig")), []).append(e)
    print("\n=== picomon monitors during the repository test suite ===")
    print("evaluations:", dict(attach.EVALS))
    print("verdict counters:", {k: v for k, v in events.COUNT.items() if k.count(".") == 1})
    for (mon, sig), es in by.items():
        print(f"VIOLATION-IN-TESTS monitor={mon} sig={sig} mech={es[0].get('mech')} count={len(es)}\n   {str(es[0].get('msg'))[:400]}")
    out = os.environ.get("PICOMON_PYTEST_REPORT")
    if out:
        with open(out, "w") as f:
            json.dump({"evaluations": dict(attach.EVALS), "violations": [{"monitor": m, "sig": s, "mech": es[0].get("mech"), "count": len(es), "msg": str(es[0].get("msg"))[:600]} for (m, s), es in by.items()]}, f, indent=1)
