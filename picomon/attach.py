"""Install monitors (wrappers) around real picosvg callables.

wrap_function(module, name, make_wrapper): replaces module.name and *every alias*
of the same object in any loaded picosvg.* module (svg.py does `from svg_types import *`).
wrap_method(cls, name, make_wrapper): replaces a method on the class, preserving
staticmethod/classmethod descriptors.

make_wrapper(orig) -> callable.  Each installed monitor is counted in EVALS by the
wrapper itself (monitors call count(name)).
"""
import functools
import sys
import types
from collections import Counter

EVALS = Counter()
_INSTALLED = []  # (kind, holder, name, original)


def count(name, n=1):
    EVALS[name] += n


def _picosvg_modules():
    return [m for k, m in list(sys.modules.items()) if k.startswith("picosvg") and m is not None]


def wrap_function(module, name, make_wrapper):
    orig = getattr(module, name)
    wrapped = make_wrapper(orig)
    try:
        functools.update_wrapper(wrapped, orig)
    except Exception:
        pass
    n = 0
    for m in _picosvg_modules():
        for attr, val in list(vars(m).items()):
            if val is orig:
                setattr(m, attr, wrapped)
                _INSTALLED.append(("f", m, attr, orig))
                n += 1
    return n


def wrap_method(cls, name, make_wrapper):
    raw = cls.__dict__.get(name)
    if raw is None:
        # inherited: wrap on this class only
        raw = getattr(cls, name)
        fn = raw
        kind = None
    elif isinstance(raw, staticmethod):
        fn, kind = raw.__func__, staticmethod
    elif isinstance(raw, classmethod):
        fn, kind = raw.__func__, classmethod
    elif isinstance(raw, property):
        fn, kind = raw.fget, property
    else:
        fn, kind = raw, None
    wrapped = make_wrapper(fn)
    try:
        functools.update_wrapper(wrapped, fn)
    except Exception:
        pass
    new = kind(wrapped) if kind else wrapped
    _INSTALLED.append(("m", cls, name, cls.__dict__.get(name)))
    setattr(cls, name, new)
    return 1


def detach_all():
    while _INSTALLED:
        kind, holder, name, orig = _INSTALLED.pop()
        if kind == "m" and orig is None:
            try:
                delattr(holder, name)
            except Exception:
                pass
        else:
            setattr(holder, name, orig)


class Depth:
    """Re-entrancy counter so a monitor judges only the outermost call."""

    def __init__(self):
        self.d = 0

    def __enter__(self):
        self.d += 1
        return self.d

    def __exit__(self, *a):
        self.d -= 1
