"""Worker process: python -m picomon.worker <PID> <tier> <seed> <shard> <nshards> <outfile> <deadline_epoch>

Runs the cases i with i % nshards == shard, writes one JSON line per case to outfile,
and a final line {"_final": ...} with reach report and monitor evaluation counts.
"""
import importlib
import json
import os
import signal
import sys
import time
import traceback


class CaseTimeout(Exception):
    pass


def _alarm(signum, frame):
    raise CaseTimeout()


def main(argv):
    pid, tier, seed, shard, nshards, outfile, deadline = argv
    seed, shard, nshards, deadline = int(seed), int(shard), int(nshards), float(deadline)
    from picomon import bootstrap

    out = open(outfile, "w", buffering=1)
    try:
        bootstrap.setup()
    except Exception as e:
        out.write(json.dumps({"_fatal": f"bootstrap: {type(e).__name__}: {e}"}) + "\n")
        return 2
    sys.setrecursionlimit(3000)
    try:
        import resource

        lim = int(os.environ.get("VERIF_RLIMIT_AS_GB", "6")) << 30
        resource.setrlimit(resource.RLIMIT_AS, (lim, lim))
    except Exception:
        pass
    from picomon import attach, reach

    mod = importlib.import_module(f"picomon.drivers.{pid.lower()}")
    drv = mod.D()
    try:
        cases = drv.cases(tier, seed)
        drv.setup_worker(tier, seed)
    except Exception as e:
        out.write(
            json.dumps({"_fatal": f"setup: {type(e).__name__}: {e}\n{traceback.format_exc()[-1500:]}"})
            + "\n"
        )
        return 2
    r = None
    if drv.use_reach and drv.anchors:
        r = reach.Reach(drv.anchors)
        try:
            r.start()
        except Exception as e:
            r = None
    signal.signal(signal.SIGALRM, _alarm)
    skipped = 0
    for i in range(shard, len(cases), nshards):
        if time.time() > deadline:
            skipped += 1
            continue
        t0 = time.time()
        signal.alarm(int(drv.case_timeout))
        try:
            res = drv.run_case(cases[i])
            res["_i"] = i
        except CaseTimeout:
            res = {"_i": i, "_timeout": True, "case": _short(cases[i])}
        except MemoryError:
            res = {"_i": i, "_error": "MemoryError", "case": _short(cases[i])}
        except Exception as e:
            res = {
                "_i": i,
                "_error": f"{type(e).__name__}: {e}",
                "_tb": traceback.format_exc()[-2000:],
                "case": _short(cases[i]),
            }
        finally:
            signal.alarm(0)
        res["_t"] = round(time.time() - t0, 3)
        out.write(json.dumps(res, default=str) + "\n")
    final = {
        "_final": True,
        "shard": shard,
        "skipped_for_time": skipped,
        "monitor_evals": dict(attach.EVALS),
        "reach": r.report() if r else {},
        "calls": (r.calls if r else {}),
    }
    if r:
        r.stop()
    out.write(json.dumps(final) + "\n")
    out.close()
    return 0


def _short(c):
    s = json.dumps(c, default=str)
    return s if len(s) < 2000 else s[:2000] + "..."


if __name__ == "__main__":
    sys.exit(main(sys.argv[1:]))
