#!/usr/bin/env python3
"""tools/automutate.py [N] [SEED] : sampled syntactic mutants of picosvg vs the checks.

Mutation sites are taken from the functions the properties are anchored in (the `anchors` of the
drivers).  Operators: comparison flips (< <=, > >=, == !=, is / is not), arithmetic flips (+ -,
* /), boolean connective flips, condition negation, numeric constant changes, deletion of a
call / assignment statement.  For every sampled mutant: scratch worktree of /repo HEAD, splice
the mutated expression into the source, (optionally) run the repository's own suite, run the
quick check of every property anchored in the mutated function with VERIF_REPO on the scratch
tree.  Survivors are listed for triage (equivalent mutant / outside every property / gap).

Results: automut/RESULTS.md (+ automut/results.jsonl, appended; finished mutants are skipped on
a re-run with the same N and SEED).
"""
import ast
import copy
import importlib
import json
import os
import random
import subprocess
import sys

V = os.path.dirname(os.path.dirname(os.path.abspath(__file__)))
sys.path.insert(0, V)
SRC = "/repo/src/picosvg"


def anchors():
    out = {}
    for i in range(1, 21):
        pid = f"C{i:02d}"
        drv = importlib.import_module(f"picomon.drivers.{pid.lower()}").D
        for mod, qual in getattr(drv, "anchors", ()):
            out.setdefault((mod.split(".")[-1], qual), set()).add(pid)
    return out


class Sites(ast.NodeVisitor):
    def __init__(self):
        self.stack = []
        self.sites = []  # (qualname, node, kind)

    def _q(self):
        return ".".join(self.stack)

    def visit_ClassDef(self, n):
        self.stack.append(n.name)
        self.generic_visit(n)
        self.stack.pop()

    def visit_FunctionDef(self, n):
        self.stack.append(n.name)
        self.generic_visit(n)
        self.stack.pop()

    visit_AsyncFunctionDef = visit_FunctionDef

    def generic_visit(self, n):
        if self.stack:
            q = self._q()
            if isinstance(n, ast.Compare) and len(n.ops) == 1 and type(n.ops[0]) in (ast.Lt, ast.LtE, ast.Gt, ast.GtE, ast.Eq, ast.NotEq, ast.Is, ast.IsNot, ast.In, ast.NotIn):
                self.sites.append((q, n, "cmp"))
            elif isinstance(n, ast.BinOp) and type(n.op) in (ast.Add, ast.Sub, ast.Mult, ast.Div) and not (isinstance(n.left, ast.Constant) and isinstance(n.left.value, str)):
                self.sites.append((q, n, "arith"))
            elif isinstance(n, ast.BoolOp):
                self.sites.append((q, n, "bool"))
            elif isinstance(n, (ast.If, ast.While)) :
                self.sites.append((q, n.test, "negate"))
            elif isinstance(n, ast.IfExp):
                self.sites.append((q, n.test, "negate"))
            elif isinstance(n, ast.Constant) and isinstance(n.value, (int, float)) and not isinstance(n.value, bool):
                self.sites.append((q, n, "const"))
            elif isinstance(n, ast.Expr) and isinstance(n.value, ast.Call):
                self.sites.append((q, n, "delete"))
            elif isinstance(n, (ast.Assign, ast.AugAssign)) and n.col_offset > 4:
                self.sites.append((q, n, "delete"))
            elif isinstance(n, ast.UnaryOp) and isinstance(n.op, ast.Not):
                self.sites.append((q, n, "unnot"))
        super().generic_visit(n)


def mutate(node, kind, rng):
    m = copy.deepcopy(node)
    if kind == "cmp":
        t = type(m.ops[0])
        swap = {ast.Lt: [ast.LtE, ast.Gt], ast.LtE: [ast.Lt, ast.GtE], ast.Gt: [ast.GtE, ast.Lt], ast.GtE: [ast.Gt, ast.LtE], ast.Eq: [ast.NotEq], ast.NotEq: [ast.Eq],
                ast.Is: [ast.IsNot], ast.IsNot: [ast.Is], ast.In: [ast.NotIn], ast.NotIn: [ast.In]}[t]
        m.ops = [rng.choice(swap)()]
        return ast.unparse(m)
    if kind == "arith":
        t = type(m.op)
        m.op = {ast.Add: ast.Sub, ast.Sub: ast.Add, ast.Mult: ast.Div, ast.Div: ast.Mult}[t]()
        return ast.unparse(m)
    if kind == "bool":
        m.op = ast.Or() if isinstance(m.op, ast.And) else ast.And()
        return ast.unparse(m)
    if kind == "negate":
        return "not (" + ast.unparse(m) + ")"
    if kind == "unnot":
        return "(" + ast.unparse(m.operand) + ")"
    if kind == "const":
        v = m.value
        nv = rng.choice([v + 1, v - 1, 0 if v else 1, -v if v else 2, v * 2 if v else 1])
        if nv == v:
            nv = v + 1
        return repr(nv)
    if kind == "delete":
        return "pass"
    raise ValueError(kind)


def splice(src, node, text):
    lines = src.split("\n")
    # offsets are utf8 byte based; the sources are ASCII in practice
    a = sum(len(l) + 1 for l in lines[: node.lineno - 1]) + node.col_offset
    b = sum(len(l) + 1 for l in lines[: node.end_lineno - 1]) + node.end_col_offset
    return src[:a] + text + src[b:]


def sh(cmd, **kw):
    return subprocess.run(cmd, shell=True, capture_output=True, text=True, **kw)


def candidates(seed):
    """All mutants of the anchored functions, prepared, in the sampling order of `seed`:
    (file, function, node, kind, properties, mutated text, new source, original text, key)."""
    anc = anchors()
    rng = random.Random(f"automut-{seed}")
    cands = []
    for fn in sorted(os.listdir(SRC)):
        if not fn.endswith(".py"):
            continue
        mod = fn[:-3]
        src = open(os.path.join(SRC, fn)).read()
        tree = ast.parse(src)
        sv = Sites()
        sv.visit(tree)
        for q, node, kind in sv.sites:
            pids = set()
            for (am, aq), ps in anc.items():
                if am == mod and (q == aq or q.startswith(aq + ".")):
                    pids |= ps
            if pids:
                cands.append((fn, q, node, kind, sorted(pids)))
    rng.shuffle(cands)
    # interleave the operator kinds (statement deletions would otherwise be 40% of the sample)
    bykind = {}
    for c in cands:
        bykind.setdefault(c[3], []).append(c)
    cands = []
    order = sorted(bykind)
    while any(bykind.values()):
        for k in order:
            if bykind[k]:
                cands.append(bykind[k].pop())
    out = []
    srcs = {}
    for fn, q, node, kind, pids in cands:
        src = srcs.setdefault(fn, open(os.path.join(SRC, fn)).read())
        try:
            text = mutate(node, kind, random.Random(f"{seed}-{fn}-{node.lineno}-{node.col_offset}-{kind}"))
            new_src = splice(src, node, text)
            ast.parse(new_src)
        except Exception:
            continue
        orig = ast.get_source_segment(src, node) or ""
        if " ".join(orig.split()) == " ".join(text.split()):
            continue
        key = f"{fn}:{node.lineno}:{node.col_offset}:{kind}:{text[:40]}"
        out.append((fn, q, node, kind, pids, text, new_src, orig, key))
    return out


def main():
    n_want = int(sys.argv[1]) if len(sys.argv) > 1 else 60
    seed = int(sys.argv[2]) if len(sys.argv) > 2 else 0
    with_suite = not os.environ.get("AUTOMUT_NOSUITE")
    cands = candidates(seed)
    only = None
    if "--from" in sys.argv:
        only = set(json.load(open(sys.argv[sys.argv.index("--from") + 1]))["survivors"])
        cands = [c for c in cands if c[8] in only]
        n_want = len(cands)
    os.makedirs(os.path.join(V, "automut"), exist_ok=True)
    logp = os.path.join(V, "automut", "results.jsonl")
    done = {}
    if os.path.exists(logp):
        for l in open(logp):
            r = json.loads(l)
            done[r["key"]] = r
    picked = 0
    for fn, q, node, kind, pids, text, new_src, orig, key in cands:
        if picked >= n_want:
            break
        if os.environ.get("AUTOMUT_ONLY_DONE") and key not in done:
            continue  # revisit recorded mutants only (the sampling order changes when anchors change)
        picked += 1
        if key in done and not (os.environ.get("AUTOMUT_RETRY") and done[key].get("verdict") in os.environ["AUTOMUT_RETRY"].split(",")):
            continue
        wt = f"/var/tmp/automut_{os.getpid()}"
        sh(f"git -C /repo worktree remove --force {wt}; git -C /repo worktree prune")
        if sh(f"git -C /repo worktree add -q --detach {wt} HEAD").returncode:
            print("worktree failed", file=sys.stderr)
            continue
        rec = dict(key=key, file=fn, function=q, line=node.lineno, kind=kind, original=orig[:120], mutated=text[:120], properties=pids, results={})
        if only is not None:
            rec["suite"] = "passes"  # phase 1 (tools/automut_suite_filter.py) established it
        if key in done and done[key].get("suite"):
            rec["suite"] = done[key]["suite"]
            rec["first_verdict"] = done[key].get("first_verdict") or done[key].get("verdict")
        try:
            open(os.path.join(wt, "src", "picosvg", fn), "w").write(new_src)
            imp = sh(f"cd {wt} && PYTHONPATH={wt}/src /venv/bin/python -c 'import picosvg.svg, picosvg.svg_reuse, picosvg.picosvg'", timeout=120)
            if imp.returncode:
                rec["suite"] = "import fails"
                rec["verdict"] = "STILLBORN"
            else:
                if with_suite:
                    t2 = sh(f"cd {wt} && PYTHONPATH={wt}/src timeout 900 /venv/bin/python -m pytest -q -p no:cacheprovider 2>&1 | tail -1", timeout=1000).stdout.strip()
                    rec["suite"] = "passes" if "5 failed, 356 passed" in t2 else "kills"
                for pid in pids:
                    try:
                        r = sh(f"cd {V} && VERIF_REPO={wt} VERIF_SEED=0 ./check {pid} --tier quick", timeout=2400)
                        rec["results"][pid] = {0: "held", 1: "VIOLATION", 2: "inconclusive"}.get(r.returncode, f"rc{r.returncode}")
                    except subprocess.TimeoutExpired:
                        rec["results"][pid] = "timeout"
                vals = set(rec["results"].values())
                rec["verdict"] = "DETECTED" if "VIOLATION" in vals else ("INCONCLUSIVE" if vals - {"held"} else "SURVIVED")
        finally:
            sh(f"git -C /repo worktree remove --force {wt}; git -C /repo worktree prune")
        with open(logp, "a") as f:
            f.write(json.dumps(rec) + "\n")
        done[key] = rec
        print(rec["verdict"], rec.get("suite"), fn, q, node.lineno, kind, repr(orig[:50]), "->", repr(text[:50]), rec["results"], flush=True)
    # report
    rows = list(done.values())
    with open(os.path.join(V, "automut", "RESULTS.md"), "w") as f:
        f.write("# Sampled syntactic mutants (tools/automutate.py) vs the quick tier of the anchored properties\n\n")
        tot = len(rows)
        by = {}
        for r in rows:
            by[r["verdict"]] = by.get(r["verdict"], 0) + 1
        f.write(f"{tot} mutants: " + ", ".join(f"{k} {v}" for k, v in sorted(by.items())) + "\n\n")
        live = [r for r in rows if r["verdict"] != "STILLBORN"]
        sk = [r for r in live if r.get("suite") == "kills"]
        f.write(f"repository suite kills {len(sk)} of {len(live)}; the checks detect {sum(r['verdict'] == 'DETECTED' for r in live)} "
                f"(of the {len(live) - len(sk)} the suite lets through: {sum(r['verdict'] == 'DETECTED' for r in live if r.get('suite') != 'kills')})\n\n")
        redo = [r for r in rows if r.get("first_verdict") and r["first_verdict"] != r["verdict"]]
        if redo:
            f.write(f"{len(redo)} mutants changed verdict when re-run after the checks were strengthened (column 'first run').\n\n")
        f.write("| file:line | function | kind | original -> mutant | suite | per property | verdict | first run |\n|---|---|---|---|---|---|---|---|\n")
        for r in sorted(rows, key=lambda r: (r["verdict"], r["file"], r["line"])):
            orig = " ".join(r["original"].split())[:50].replace("|", "\\|")
            mut = " ".join(r["mutated"].split())[:50].replace("|", "\\|")
            f.write(f"| {r['file']}:{r['line']} | {r['function']} | {r['kind']} | `{orig}` -> `{mut}` | {r.get('suite', '-')} | "
                    + " ".join(f"{k}:{v}" for k, v in r["results"].items()) + f" | {r['verdict']} | {r.get('first_verdict') or ''} |\n")


if __name__ == "__main__":
    main()
