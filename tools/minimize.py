#!/usr/bin/env python3
"""tools/minimize.py <PID> <replay.json> : greedy delta debugging of a document witness
(elements, then attributes, then style declarations) under the property's own check."""
import importlib, json, random, sys, os
sys.path.insert(0, os.path.dirname(os.path.dirname(os.path.abspath(__file__))))
from picomon import bootstrap
bootstrap.setup()
import xml.etree.ElementTree as ET
from picomon.driver import new_result

ET.register_namespace("", "http://www.w3.org/2000/svg")
ET.register_namespace("xlink", "http://www.w3.org/1999/xlink")


def main():
    pid, path = sys.argv[1], sys.argv[2]
    drv = importlib.import_module(f"picomon.drivers.{pid.lower()}").D()
    drv.setup_worker("quick", 0)
    rp = json.load(open(path))["replay"]
    doc = rp["doc"]
    nd = rp.get("ndigits", 3)

    def fails(text):
        try:
            r2 = dict(rp)
            r2["doc"] = text
            v = drv.replay(r2)
            if want_sig:
                v = [x for x in v if (x.get("sig") or x.get("rule") or "").split(":")[0] == want_sig]
            if "--unclassified" in sys.argv:
                v = [x for x in v if not x.get("mech")]
            return bool(v)
        except Exception:
            return False

    want_sig = (json.load(open(path)).get("sig") or "").split(":")[0] if "--same-sig" in sys.argv else None
    assert fails(doc), "witness does not fail"
    root = ET.fromstring(doc)
    changed = True
    while changed:
        changed = False
        for parent in list(root.iter()):
            for ch in list(parent):
                idx = list(parent).index(ch)
                parent.remove(ch)
                if fails(ET.tostring(root, encoding="unicode")):
                    changed = True
                    continue
                parent.insert(idx, ch)
        for el in root.iter():
            for k in list(el.attrib):
                if k in ("viewBox",):
                    continue
                v = el.attrib.pop(k)
                if fails(ET.tostring(root, encoding="unicode")):
                    changed = True
                    continue
                el.attrib[k] = v
                if k == "style" and ";" in v:
                    decls = [d for d in v.split(";") if d.strip()]
                    for d in list(decls):
                        rest = [x for x in decls if x is not d]
                        el.attrib[k] = ";".join(rest)
                        if rest and fails(ET.tostring(root, encoding="unicode")):
                            decls = rest
                            changed = True
                        else:
                            el.attrib[k] = ";".join(decls)
    out = ET.tostring(root, encoding="unicode")
    print(out)
    r2 = dict(rp)
    r2["doc"] = out
    for v in drv.replay(r2)[:1]:
        print(str(v.get("msg"))[:3000])


main()
