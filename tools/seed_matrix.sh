#!/bin/bash
# tools/seed_matrix.sh [tier] [ids...]: run every seeded change against its own property's check using a scratch
# worktree (VERIF_REPO), record detected/missed in seeded/RESULTS.md.  Scratch trees are removed afterwards.
tier="${1:-quick}"; shift
cd /verif
ids="$@"; [ -z "$ids" ] && ids=$(ls seeded | grep -E '^C[0-9]+' )
out=${SEED_MATRIX_OUT:-seeded/RESULTS.md}
echo "# Seeded changes vs checks (tier=$tier, VERIF_SEED=${VERIF_SEED:-0}, $(date -u +%F))" > $out.tmp
echo "" >> $out.tmp
echo "| seed | property check | exit | verdict | first violation signature |" >> $out.tmp
echo "|---|---|---|---|---|" >> $out.tmp
for name in $ids; do
  pid=$(python3 -c "import json;print(json.load(open('seeded/$name/meta.json'))['property'])")
  wt=/var/tmp/seedwt_$name_$$
  git -C /repo worktree add -q --detach $wt HEAD || continue
  if ! git -C $wt apply /verif/seeded/$name/patch.diff; then echo "| $name | $pid | - | PATCH DOES NOT APPLY | |" >> $out.tmp; git -C /repo worktree remove --force $wt; continue; fi
  log=$(VERIF_REPO=$wt ./check $pid --tier $tier 2>&1); rc=$?
  sig=$(echo "$log" | grep -E "^  \(" | head -1 | cut -c4-90 | tr '|' '/')
  if [ $rc = 1 ]; then v=DETECTED; elif [ $rc = 0 ]; then v=MISSED; else v="INCONCLUSIVE"; fi
  echo "| $name | $pid | $rc | $v | $sig |" >> $out.tmp
  echo "$name $pid rc=$rc $v"
  git -C /repo worktree remove --force $wt
done
# a partial run keeps the rows of the seeds it did not run
python3 - "$out" "$out.tmp" <<'PY'
import re, sys
old, new = sys.argv[1], sys.argv[2]
rows = {}
try:
    for l in open(old):
        m = re.match(r"\| (C\d+\w*) \|", l)
        if m:
            rows[m.group(1)] = l
except FileNotFoundError:
    pass
head = []
for l in open(new):
    m = re.match(r"\| (C\d+\w*) \|", l)
    if m:
        rows[m.group(1)] = l
    else:
        head.append(l)
with open(new, "w") as f:
    f.writelines(head)
    for k in sorted(rows):
        f.write(rows[k])
PY
mv $out.tmp $out
git -C /repo worktree prune
