#!/usr/bin/env python3
"""tools/breakit.py [ID ...]: textual mutants of picosvg ("break-it" bullets of DESIGN.md section 3).

For each mutant: scratch worktree of /repo HEAD, apply the replacement, run the repository's
own suite (a mutant the suite already catches is recorded as such but still run), run the
property's quick check with VERIF_REPO pointing at the scratch tree, record the outcome in
breakit/RESULTS.md.  Scratch trees are removed afterwards.
"""
import os
import re
import subprocess
import sys

V = os.path.dirname(os.path.dirname(os.path.abspath(__file__)))
M = [
    # (property, name, file, old, new)
    ("C01", "root-attrs-kept", "svg.py", "        _del_attrs(self.svg_root, *_INHERITABLE_ATTRIB)", "        pass"),
    ("C01", "no-evenodd-conversion", "svg.py", "            if shape.fill_rule == \"evenodd\":\n                path = shape.as_path().remove_overlaps(inplace=True)", "            if False:\n                path = shape.as_path().remove_overlaps(inplace=True)"),
    ("C01", "group-attrs-not-cleared", "svg.py", "        group_el.attrib.clear()\n        group_el.attrib[\"opacity\"] = ntos(opacity)", "        group_el.attrib[\"opacity\"] = ntos(opacity)"),
    ("C01", "desc-not-removed", "svg.py", "for tag in (\"title\", \"desc\", \"metadata\", \"comment\"):", "for tag in (\"title\", \"metadata\", \"comment\"):"),
    ("C14", "desc-not-removed-c14", "svg.py", "for tag in (\"title\", \"desc\", \"metadata\", \"comment\"):", "for tag in (\"title\", \"metadata\", \"comment\"):"),
    ("C01", "dashoffset-not-reset", "svg.py", "_reset_attrs(path, lambda field: field.name.startswith(\"stroke\"))", "_reset_attrs(path, lambda field: field.name.startswith(\"stroke\") and field.name != \"stroke_dashoffset\")"),
    ("C01", "cli-option-swap", "picosvg.py", "allow_text=FLAGS.allow_text, drop_unsupported=FLAGS.drop_unsupported", "allow_text=FLAGS.allow_text, drop_unsupported=FLAGS.allow_text"),
    ("C02", "compose-order", "svg.py", "return Affine2D.compose_ltr((Affine2D.fromstring(raw), current_transform))", "return Affine2D.compose_ltr((current_transform, Affine2D.fromstring(raw)))"),
    ("C02", "use-xy-after-transform", "svg.py", "                            affine,\n                            Affine2D.fromstring(use_el.attrib[\"transform\"]),", "                            Affine2D.fromstring(use_el.attrib[\"transform\"]),\n                            affine,"),
    ("C02", "nested-svg-xy-dropped", "svg.py", "            transform = Affine2D.identity().translate(x, y)", "            transform = Affine2D.identity()"),
    ("C02", "par-default", "svg.py", "svg.attrib.get(\"preserveAspectRatio\", \"xMidYMid\")", "svg.attrib.get(\"preserveAspectRatio\", \"xMinYMin\")"),
    ("C02", "swap-not-reversed", "svg.py", "            for new_el in reversed(new_els):\n                old_el.addnext(new_el)", "            for new_el in new_els:\n                old_el.addnext(new_el)"),
    ("C02", "display-not-inherited", "svg.py", "    if value == \"none\":\n        child.attrib[attr_name] = value\n    else:", "    if False:\n        child.attrib[attr_name] = value\n    else:"),
    ("C03", "union-to-intersection", "svg.py", "clip = SVGPath.from_commands(union(clip_paths))", "clip = SVGPath.from_commands(intersection(clip_paths))"),
    ("C03", "clippath-transform-dropped", "svg.py", "        transform = _element_transform(clip_path_el, transform)\n        clip_paths = [", "        clip_paths = ["),
    ("C03", "clip-in-parent-ctm", "svg.py", "self._resolve_clip_path(child.attrib[\"clip-path\"], transform),", "self._resolve_clip_path(child.attrib[\"clip-path\"], context.transform),"),
    ("C03", "nested-clip-ignored", "svg.py", "        if \"clip-path\" in clip_path_el.attrib:", "        if False:"),
    ("C03", "only-last-clip", "svg.py", "                    clips += (\n                        self._resolve_clip_path", "                    clips = (\n                        self._resolve_clip_path"),
    ("C03", "shape-rule-is-clip-rule", "svg.py", "                                    p.fill_rule,\n                                    *(c.clip_rule for c in context.clips),", "                                    p.clip_rule,\n                                    *(c.clip_rule for c in context.clips),"),
    ("C04", "cap-mapping", "svg_pathops.py", "    \"round\": pathops.LineCap.ROUND_CAP,\n    \"square\": pathops.LineCap.SQUARE_CAP,", "    \"round\": pathops.LineCap.SQUARE_CAP,\n    \"square\": pathops.LineCap.ROUND_CAP,"),
    ("C04", "join-mapping", "svg_pathops.py", "    \"round\": pathops.LineJoin.ROUND_JOIN,\n    \"bevel\": pathops.LineJoin.BEVEL_JOIN,", "    \"round\": pathops.LineJoin.BEVEL_JOIN,\n    \"bevel\": pathops.LineJoin.ROUND_JOIN,"),
    ("C04", "dash-offset-ignored", "svg_types.py", "            dash_array,\n            self.stroke_dashoffset,\n        )", "            dash_array,\n            0.0,\n        )"),
    ("C04", "odd-dashes-not-repeated", "svg_types.py", "        if len(dash_array) % 2 != 0:\n            dash_array.extend(dash_array)", "        if False:\n            dash_array.extend(dash_array)"),
    ("C04", "stroke-after-transform", "svg.py", "                if paths[0].stroke != \"none\":\n                    paths = list(self._stroke(paths[0]))", "                if context.transform != Affine2D.identity():\n                    paths = [p.apply_transform(context.transform) for p in paths]\n                    context = context._replace(transform=Affine2D.identity())\n                if paths[0].stroke != \"none\":\n                    paths = list(self._stroke(paths[0]))"),
    ("C04", "pieces-order", "svg.py", "        return (shape, stroke)", "        return (stroke, shape)"),
    ("C04", "stroke-opacity-wrong", "svg.py", "stroke.opacity = _clamp(stroke.opacity) * _clamp(stroke.stroke_opacity)", "stroke.opacity = _clamp(stroke.opacity) * _clamp(stroke.fill_opacity)"),
    ("C05", "attribute-beats-style", "svg_meta.py", "                try:\n                    output[property_name] = value", "                try:\n                    if property_name not in output:\n                        output[property_name] = value"),
    ("C05", "opacity-copied-not-multiplied", "svg.py", "    \"opacity\": _inherit_multiply,", "    \"opacity\": _inherit_copy,"),
    ("C05", "no-push-opacity", "svg.py", "        if push_opacity:\n            for child in children:", "        if False:\n            for child in children:"),
    ("C05", "removable-group-lt", "svg.py", "    return num_children <= 1 or _opacity(el) in {0.0, 1.0}", "    return num_children <= 2 or _opacity(el) in {0.0, 1.0}"),
    ("C05", "inherit-copy-overwrites", "svg.py", "def _inherit_copy(attrib, child, attr_name):\n    if attr_name in child.attrib:\n        return", "def _inherit_copy(attrib, child, attr_name):\n    if False:\n        return"),
    ("C05", "normalize-wrong-pair", "svg_types.py", "            (\"fill\", \"stroke_opacity\"),\n            (\"stroke\", \"fill_opacity\"),", "            (\"fill\", \"fill_opacity\"),\n            (\"stroke\", \"stroke_opacity\"),"),
    ("C06", "gradient-compose-order", "svg.py", "            (gradient.gradientTransform, transform)\n        ).round", "            (transform, gradient.gradientTransform)\n        ).round"),
    ("C06", "no-user-space-units", "svg.py", "            .as_user_space_units(shape_bbox, inplace=True)", "            .as_user_space_units(Rect(0, 0, 1, 1), inplace=True)"),
    ("C06", "translation-sign", "svg.py", "                x_prime, y_prime = translate.map_point((x, y))", "                x_prime, y_prime = translate.inverse().map_point((x, y))"),
    ("C06", "template-overrides-own", "svg.py", "            if attr_name in template.attrib and attr_name not in gradient.attrib:", "            if attr_name in template.attrib:"),
    ("C06", "stops-always-copied", "svg.py", "        if len(gradient) == 0:\n            for stop_el in template:", "        if True:\n            for stop_el in template:"),
    ("C06", "template-not-applied-before-transform", "svg.py", "                    fill_el = self.resolve_url(el.attrib[\"fill\"], \"*\")\n                    self._apply_gradient_template(fill_el)", "                    fill_el = self.resolve_url(el.attrib[\"fill\"], \"*\")"),
    ("C06", "percent-y-uses-width", "svg_types.py", "            y1=number_or_percentage(attrib.pop(\"y1\", \"0%\"), scale.h),", "            y1=number_or_percentage(attrib.pop(\"y1\", \"0%\"), scale.w),"),
    ("C07", "prune-before-rounding", "svg.py", "        self.round_floats(ndigits, inplace=True)\n\n        # https://github.com/googlefonts/picosvg/issues/269 remove empty subpaths *after* rounding\n        self.remove_empty_subpaths(inplace=True)", "        self.remove_empty_subpaths(inplace=True)\n        self.round_floats(ndigits, inplace=True)\n"),
    ("C07", "ntos-keeps-point-zero", "svg_meta.py", "    return str(int(n)) if isinstance(n, float) and n.is_integer() else str(n)", "    return str(n)"),
    ("C07", "gradient-round-5", "svg.py", "        gradient.gradientTransform = affine_prime.round(_GRADIENT_TRANSFORM_NDIGITS)", "        gradient.gradientTransform = affine_prime.round(5)"),
    ("C08", "ids-kept-on-use-copies", "svg.py", "                for el in new_el.getiterator(\"*\"):\n                    if \"id\" in el.attrib:\n                        del el.attrib[\"id\"]", "                pass"),
    ("C08", "no-orphan-removal", "svg.py", "        self._remove_orphaned_gradients()\n\n        # After simplification", "        # After simplification"),
    ("C08", "ids-kept-on-stroke-pieces", "svg.py", "        shape.id = stroke.id = \"\"", "        pass"),
    ("C09", "next-pos-first-index", "svg_types.py", "        new_x += cmd_args[x_coord_idxs[-1]]", "        new_x += cmd_args[x_coord_idxs[0]]"),
    ("C09", "V-uses-y", "svg_types.py", "        args = (curr_pos.x, args[0])", "        args = (curr_pos.y, args[0])"),
    ("C09", "snap-tolerance", "geometric_types.py", "DEFAULT_ALMOST_EQUAL_TOLERANCE = 1e-9", "DEFAULT_ALMOST_EQUAL_TOLERANCE = 1e-3"),
    ("C20", "snap-tolerance-c20", "geometric_types.py", "DEFAULT_ALMOST_EQUAL_TOLERANCE = 1e-9", "DEFAULT_ALMOST_EQUAL_TOLERANCE = 1e-3"),
    ("C11", "snap-tolerance-c11", "geometric_types.py", "DEFAULT_ALMOST_EQUAL_TOLERANCE = 1e-9", "DEFAULT_ALMOST_EQUAL_TOLERANCE = 1e-3"),
    ("C04", "swap-not-reversed-c04", "svg.py", "            for new_el in reversed(new_els):\n                old_el.addnext(new_el)", "            for new_el in new_els:\n                old_el.addnext(new_el)"),
    ("C11", "decompose-a-eq-1", "svg_transform.py", "        if not almost_equal(a, 0):\n            y_prime", "        if not almost_equal(a, 1):\n            y_prime"),
    ("C11", "rect-to-rect-src-empty", "svg_transform.py", "        if src.empty():\n            return cls.identity()", "        if False:\n            return cls.identity()"),
    ("C09", "arcs-kept-others-converted", "svg_types.py", "            if cmd not in {\"a\", \"A\"}:\n                # no work to do", "            if cmd in {\"a\", \"A\"}:\n                # no work to do"),
    ("C09", "h-to-l-y1", "svg_types.py", "    elif cmd == \"h\":\n        args = (args[0], 0)", "    elif cmd == \"h\":\n        args = (args[0], 1)"),
    ("C09", "v-to-l-x1", "svg_types.py", "    if cmd == \"v\":\n        args = (0, args[0])", "    if cmd == \"v\":\n        args = (1, args[0])"),
    ("C09", "ellipse-second-arc-small", "svg_types.py", "        path.A(rx, ry, cx + rx, cy, large_arc=1)", "        path.A(rx, ry, cx + rx, cy, large_arc=0)"),
    ("C09", "move-shifts-relative", "svg_types.py", "            if cmd.islower():\n                return ((cmd, args),)\n            x_coord_idxs, y_coord_idxs = cmd_coords(cmd)", "            x_coord_idxs, y_coord_idxs = cmd_coords(cmd)"),
    ("C10", "no-leading-dot", "svg_path_iter.py", "    r\"|\"\n    r\"(?:\\.[0-9]+)\"  # float with leading dot (e.g. '.42')\n", ""),
    ("C10", "bool-greedy", "svg_path_iter.py", "_BOOL_RE = re.compile(\"^[01]\")", "_BOOL_RE = re.compile(\"^[01]+\")"),
    ("C10", "no-implicit-lineto", "svg_path_iter.py", "_IMPLICIT_REPEAT_CMD = {\"m\": \"l\", \"M\": \"L\"}", "_IMPLICIT_REPEAT_CMD = {}"),
    ("C10", "ntos-g", "svg_meta.py", "    return str(int(n)) if isinstance(n, float) and n.is_integer() else str(n)", "    return '%g' % n"),
    ("C11", "compose-not-reversed", "svg_transform.py", "return reduce(operator.matmul, reversed(affines), cls.identity())", "return reduce(operator.matmul, affines, cls.identity())"),
    ("C11", "skewx-uses-b", "svg_transform.py", "        return self.matrix(1, 0, tan(a), 1, 0, 0)", "        return self.matrix(1, tan(a), 0, 1, 0, 0)"),
    ("C11", "skewy-no-degrees", "svg_transform.py", "        \"skewy\": lambda args: _fix_rotate(args),\n", ""),
    ("C11", "inverse-sign", "svg_transform.py", "        e, f = -a * e - c * f, -b * e - d * f", "        e, f = a * e - c * f, -b * e - d * f"),
    ("C11", "xmid-quarter", "svg_transform.py", "            tx += (dst.w - src.w * sx) / 2", "            tx += (dst.w - src.w * sx) / 4"),
    ("C11", "meet-uses-max", "svg_transform.py", "sx = sy = max(sx, sy) if \"slice\" in meetOrSlice else min(sx, sy)", "sx = sy = min(sx, sy) if \"slice\" in meetOrSlice else max(sx, sy)"),
    ("C12", "sweep-large-ne", "arc_to_cubic.py", "        if self.sweep == self.large:", "        if self.sweep != self.large:"),
    ("C12", "kappa", "arc_to_cubic.py", "        t = (4 / 3) * tan(0.25 * (end_theta - start_theta))", "        t = (3 / 4) * tan(0.25 * (end_theta - start_theta))"),
    ("C12", "no-exact-end", "arc_to_cubic.py", "        if i == num_segments - 1:\n            end_point = arc.end_point\n        else:\n            end_point = point_transform.map_point(end_point)", "        end_point = point_transform.map_point(end_point)"),
    ("C12", "radii-scale-ge", "arc_to_cubic.py", "        if radii_scale > 1:", "        if radii_scale > 1.5:"),
    ("C13", "first-rule-for-all", "svg_pathops.py", "        sk_path2 = skia_path(svg_cmds, fill_rule)", "        sk_path2 = skia_path(svg_cmds, fill_rules[0])"),
    ("C13", "remove-overlaps-ignores-rule", "svg_pathops.py", "    sk_path = skia_path(svg_cmds, fill_rule=fill_rule)\n    sk_path.simplify(fix_winding=True)\n    assert", "    sk_path = skia_path(svg_cmds, fill_rule=\"nonzero\")\n    sk_path.simplify(fix_winding=True)\n    assert"),
    ("C13", "difference-shape-fill-rule", "svg_types.py", "    return svg_pathops.difference(\n        [s.as_cmd_seq() for s in shapes], [s.clip_rule for s in shapes]", "    return svg_pathops.difference(\n        [s.as_cmd_seq() for s in shapes], [s.fill_rule for s in shapes]"),
    ("C14", "pi-counted", "svg.py", "    return tag is etree.Comment or tag is etree.ProcessingInstruction", "    return tag is etree.Comment"),
    ("C14", "foreign-attrs-kept", "svg.py", "            for attr in attr_to_rm:\n                del el.attrib[attr]", "            pass"),
    ("C14", "anon-symbols-kept", "svg.py", "        self.remove_anonymous_symbols(inplace=True)\n        self.remove_title_meta_desc(inplace=True)", "        self.remove_title_meta_desc(inplace=True)"),
    ("C14", "bare-group-kept", "svg.py", "    if len(el.attrib) == 0:\n        return True\n    num_children", "    num_children"),
    ("C15", "checkpicosvg-no-flush", "svg.py", "        If result sequence empty then this is a valid picosvg.\n        \"\"\"\n\n        self._update_etree()", "        If result sequence empty then this is a valid picosvg.\n        \"\"\"\n"),
    ("C15", "set-attributes-no-flush", "svg.py", "            svg.set_attributes(name_values, xpath=xpath, inplace=True)\n            return svg\n\n        self._update_etree()", "            svg.set_attributes(name_values, xpath=xpath, inplace=True)\n            return svg\n"),
    ("C15", "inplace-returns-clone", "svg.py", "        for shape in self.shapes():\n            shape.normalize_opacity(inplace=True)\n\n        return self", "        for shape in self.shapes():\n            shape.normalize_opacity(inplace=True)\n\n        return self._clone()"),
    ("C15", "simplify-keeps-cache", "svg.py", "        self.elements = None  # force elements to reload\n\n    def simplify", "        pass\n\n    def simplify"),
    ("C16", "defs-by-hash", "svg.py", "            if new_id < el.attrib[\"id\"]:", "            if hash(new_id) < hash(el.attrib[\"id\"]):"),
    ("C17", "resolve-entities", "svg.py", "            resolve_entities=False,", "            resolve_entities=True,"),
    ("C17", "final-gate-removed", "svg.py", "        if violations:\n            raise ValueError(\"Unable to convert to picosvg: \" + \",\".join(violations))", "        pass"),
    ("C18", "area-ge-1", "svg_types.py", "svg_pathops.path_area(shape.as_cmd_seq(), fill_rule=shape.fill_rule) > 0", "svg_pathops.path_area(shape.as_cmd_seq(), fill_rule=shape.fill_rule) >= 1"),
    ("C18", "visible-plus", "svg_types.py", "            return fill != \"none\" and shape.opacity * opacity != 0", "            return fill != \"none\" and shape.opacity + opacity != 0"),
    ("C18", "stroke-width-dropped", "svg_types.py", "        if _visible(shape.stroke, shape.stroke_opacity) and shape.stroke_width != 0:", "        if _visible(shape.stroke, shape.stroke_opacity):"),
    ("C18", "pathops-error-false", "svg_types.py", "            # https://github.com/googlefonts/picosvg/issues/192\n            return True", "            # https://github.com/googlefonts/picosvg/issues/192\n            return False"),
    ("C18", "evenodd-ignored-in-area", "svg_pathops.py", "    sk_path = skia_path(svg_cmds, fill_rule=fill_rule)\n    sk_path.simplify(fix_winding=True)\n    return sk_path.area", "    sk_path = skia_path(svg_cmds, fill_rule=\"nonzero\")\n    sk_path.simplify(fix_winding=True)\n    return sk_path.area"),
    ("C19", "overlap-gt", "geometric_types.py", "            if start >= end:\n                return (0.0, 0.0)", "            if start > end + 5:\n                return (0.0, 0.0)"),
    ("C19", "control-point-bounds", "svg_pathops.py", "    return skia_path(svg_cmds, fill_rule=\"nonzero\").bounds", "    return skia_path(svg_cmds, fill_rule=\"nonzero\").controlPointBounds"),
    ("C19", "skip-phase-1", "svg.py", "            if view_box.intersection(shape.bounding_box()) is None:\n                _safe_remove(el)", "            pass"),
    ("C19", "union-min-far-side", "geometric_types.py", "        x_max, y_max = max(self.x_max, other.x_max), max(self.y_max, other.y_max)", "        x_max, y_max = min(self.x_max, other.x_max), max(self.y_max, other.y_max)"),
    ("C20", "almost-equals-ignores-length", "svg_types.py", "            if l_cmd != r_cmd or len(l_args) != len(r_args):\n                return False", "            if l_cmd != r_cmd:\n                return False"),
    ("C20", "round-unverified", "svg_reuse.py", "        if _try_affine(rounded, s1, s2, tolerance, f\"round {i}\"):\n            return rounded", "        return rounded"),
    ("C20", "try-affine-loose", "svg_reuse.py", "    return s1_prime.almost_equals(s2, tolerance)", "    return s1_prime.almost_equals(s2, tolerance * _SIGNIFICANCE_FACTOR)"),
]


def sh(cmd, **kw):
    return subprocess.run(cmd, shell=True, capture_output=True, text=True, **kw)


def main():
    want = set(sys.argv[1:])
    os.makedirs(os.path.join(V, "breakit"), exist_ok=True)
    rows = []
    prev = {}
    if os.path.exists(os.path.join(V, "breakit", "RESULTS.md")):
        for l in open(os.path.join(V, "breakit", "RESULTS.md")):
            m = re.match(r"\| (C\d+) \| ([\w-]+) \| (.*?) \| (.*?) \| (.*) \|$", l)
            if m:
                prev[(m.group(1), m.group(2))] = m.groups()
    for pid, name, fn, old, new in M:
        if want and pid not in want and name not in want:
            continue
        wt = f"/var/tmp/breakit_{os.getpid()}_{name}"
        if sh(f"git -C /repo worktree add -q --detach {wt} HEAD").returncode:
            continue
        try:
            path = os.path.join(wt, "src", "picosvg", fn)
            src = open(path).read()
            if old not in src:
                rows.append((pid, name, "-", "MUTATION SITE NOT FOUND", ""))
                print(pid, name, "site not found")
                continue
            open(path, "w").write(src.replace(old, new, 1))
            if os.environ.get("BREAKIT_NOSUITE"):
                suite = prev.get((pid, name), ("", "", "?"))[2]
            else:
                t2 = sh(f"cd {wt} && PYTHONPATH={wt}/src /venv/bin/python -m pytest -q -p no:cacheprovider 2>&1 | tail -1", timeout=600).stdout.strip()
                suite = "unchanged" if "5 failed, 356 passed" in t2 else re.sub(r" in [\d.]+s", "", t2)
            r = sh(f"cd {V} && VERIF_REPO={wt} ./check {pid} --tier quick", timeout=1800)
            sig = ""
            for line in r.stdout.splitlines():
                if line.startswith("  ("):
                    sig = line[3:100].replace("|", "/")
                    break
            verdict = {0: "MISSED", 1: "DETECTED"}.get(r.returncode, "INCONCLUSIVE")
            rows.append((pid, name, suite, verdict, sig))
            print(pid, name, suite, verdict, flush=True)
        finally:
            sh(f"git -C /repo worktree remove --force {wt}")
    sh("git -C /repo worktree prune")
    out = os.path.join(V, "breakit", "RESULTS.md")
    old_rows = {}
    if os.path.exists(out) and want:
        for l in open(out):
            m = re.match(r"\| (C\d+) \| ([\w-]+) \| (.*?) \| (.*?) \| (.*) \|$", l)
            if m:
                old_rows[(m.group(1), m.group(2))] = m.groups()
    for r in rows:
        old_rows[(r[0], r[1])] = r
    with open(out, "w") as f:
        f.write("# Own textual mutants (tools/breakit.py) vs the quick tier of the property's check\n\n")
        f.write("'suite' = result of the repository's own tests with the mutant ('unchanged' = 356 pass / same 5 fail).\n\n")
        f.write("| property | mutant | suite | verdict | first violation signature |\n|---|---|---|---|---|\n")
        for k in sorted(old_rows):
            f.write("| " + " | ".join(old_rows[k]) + " |\n")


if __name__ == "__main__":
    main()
