#!/usr/bin/env python3
"""tools/automut_suite_filter.py N SEED [JOBS]: phase 1 of the suite-survivor run.

Samples N mutation sites like tools/automutate.py (same operators, same anchored functions,
sample stream `SEED`), runs the repository's own suite on each mutant in JOBS parallel scratch
worktrees and writes automut/suite_survivors_<SEED>.json: the mutants that import and leave the
suite at its baseline (356 pass, same 5 fail).  Phase 2 (tools/automutate.py --from FILE) runs the
anchored checks on exactly those - the changes "that still compile and pass the existing tests".
"""
import ast, json, os, random, subprocess, sys
from concurrent.futures import ThreadPoolExecutor

V = os.path.dirname(os.path.dirname(os.path.abspath(__file__)))
sys.path.insert(0, os.path.join(V, "tools"))
sys.path.insert(0, V)
import automutate as am


def run_suite(cands, jobs):
    """-> {key: 'passes' | 'kills' | 'stillborn'} for prepared candidates (see automutate.candidates)."""

    def work(args):
        slot, c = args
        fn, q, node, kind, pids, text, new_src, orig, key = c
        wt = f"/var/tmp/automutf_{os.getpid()}_{slot}"
        am.sh(f"git -C /repo worktree add -q --detach {wt} HEAD")
        try:
            open(os.path.join(wt, "src", "picosvg", fn), "w").write(new_src)
            imp = am.sh(f"cd {wt} && PYTHONPATH={wt}/src /venv/bin/python -c 'import picosvg.svg, picosvg.svg_reuse, picosvg.picosvg'", timeout=120)
            if imp.returncode:
                return key, "stillborn"
            t2 = am.sh(f"cd {wt} && PYTHONPATH={wt}/src timeout 900 /venv/bin/python -m pytest -q -p no:cacheprovider 2>&1 | tail -1", timeout=1000).stdout.strip()
            return key, ("passes" if "5 failed, 356 passed" in t2 else "kills")
        finally:
            am.sh(f"git -C /repo worktree remove --force {wt}; git -C /repo worktree prune")

    with ThreadPoolExecutor(jobs) as ex:
        return dict(ex.map(work, [(i, c) for i, c in enumerate(cands)]))


def main():
    if sys.argv[1] == "--label":
        # give every recorded mutant that has no suite verdict yet one (results.jsonl gets an updated record)
        jobs = int(sys.argv[2]) if len(sys.argv) > 2 else 6
        logp = os.path.join(V, "automut", "results.jsonl")
        done = {}
        for l in open(logp):
            r = json.loads(l)
            done[r["key"]] = r
        need = {k for k, r in done.items() if not r.get("suite") or r.get("suite") == "?"}
        cands = [c for c in am.candidates(0) if c[8] in need]
        res = run_suite(cands, jobs)
        with open(logp, "a") as f:
            for k, v in res.items():
                r = dict(done[k])
                r["suite"] = v if v != "stillborn" else "import fails"
                f.write(json.dumps(r) + "\n")
        print({v: list(res.values()).count(v) for v in set(res.values())})
        return
    n, seed = int(sys.argv[1]), int(sys.argv[2])
    jobs = int(sys.argv[3]) if len(sys.argv) > 3 else 8
    cands = am.candidates(seed)[:n]
    res = run_suite(cands, jobs)
    surv = []
    for c in cands:
        fn, q, node, kind, pids, text, new_src, orig, key = c
        if res.get(key) == "passes":
            surv.append(key)
    counts = {k: list(res.values()).count(k) for k in set(res.values())}
    json.dump({"seed": seed, "sampled": len(cands), "suite": counts, "survivors": surv}, open(os.path.join(V, "automut", f"suite_survivors_{seed}.json"), "w"), indent=1)
    print(counts, len(surv))


if __name__ == "__main__":
    main()
