#!/bin/bash
# tools/try_seed.sh <patch.diff> <tier> <ID> [ID...] : apply a seeded change to /repo, run checks, undo.
patch="$(realpath "$1")"; tier="$2"; shift 2
cd /verif
git -C /repo diff --quiet || { echo "/repo dirty, abort"; exit 3; }
git -C /repo apply "$patch" || { echo "patch does not apply"; exit 3; }
trap 'git -C /repo checkout -- .' EXIT
for id in "$@"; do
  out=$(./check "$id" --tier "$tier" 2>&1); rc=$?
  echo "== $id rc=$rc"; echo "$out" | grep -E "VIOLATION|KNOWN|INCONCLUSIVE|^#|^  \(" | cut -c1-400 | head -12
done
