#!/usr/bin/env python3
"""tools/mkmeta.py NAME ROUND "what it needs to manifest": write seeded/NAME/meta.json for a confirmed seeded change
(detected_by is filled from seeded/RESULTS.md when the seed matrix has been run for it)."""
import json, os, re, sys

V = os.path.dirname(os.path.dirname(os.path.abspath(__file__)))
name, rnd, needs = sys.argv[1], sys.argv[2], sys.argv[3]
pid = re.match(r"C\d+", name).group(0)
prop = next(json.loads(l) for l in open(os.path.join(V, "properties.jsonl")) if json.loads(l)["id"] == pid)
d = os.path.join(V, "seeded", name)
notes = open(os.path.join(d, "notes.md")).read() if os.path.exists(os.path.join(d, "notes.md")) else ""
det = "not run yet"
rp = os.path.join(V, "seeded", "RESULTS.md")
if os.path.exists(rp):
    for l in open(rp):
        m = re.match(rf"\| {name} \| (C\d+) \| (\d+) \| (\w+) \| (.*) \|$", l)
        if m:
            det = f"./check {m.group(1)} --tier quick -> {m.group(3)} ({m.group(4).strip()}) [tools/seed_matrix.sh, see seeded/RESULTS.md]"
meta = {
    "property": pid,
    "title": prop["title"],
    "origin": f"fresh sub-agent, round {rnd}, given only the property text and a scratch worktree",
    "needs_to_manifest": needs,
    "confirmed_by": "tools/confirm_seed.sh: fresh scratch worktree of /repo HEAD (incl. fix: commits); patch applies; pytest = 5 failed/356 passed with identical failing set; demo.py exit 0 on clean tree, exit 1 with patch; worktree removed",
    "detected_by": det,
    "what_was_run": "tools/confirm_seed.sh (scratch worktree: patch applies, repo suite unchanged, demo fails with / passes without the patch); tools/seed_matrix.sh quick (scratch worktree via VERIF_REPO, check of the seeded property)",
    "sub_agent_notes_excerpt": " ".join(notes.split())[:900],
}
json.dump(meta, open(os.path.join(d, "meta.json"), "w"), indent=1)
print("wrote", os.path.join(d, "meta.json"))
