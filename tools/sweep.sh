#!/bin/bash
# tools/sweep.sh <tier> <seed> [seed...] : every check at the tier for each seed; prints one summary line per run
tier="$1"; shift
cd "$(dirname "$0")/.."
[ -d .deps/icontract ] || ./setup.sh --no-selftest
fail=0
for seed in "$@"; do
  for i in 01 02 03 04 05 06 07 08 09 10 11 12 13 14 15 16 17 18 19 20; do
    out=$(VERIF_SEED=$seed PYTHONHASHSEED=0 ./check C$i --tier $tier 2>&1); rc=$?
    echo "seed=$seed C$i rc=$rc $(echo "$out" | grep '^# C' | tail -1 | cut -c1-200)"
    if [ $rc != 0 ]; then fail=1; echo "$out" | grep -E "VIOLATION|INCONCLUSIVE|^  \(" | cut -c1-600 | head -8; fi
  done
done
exit $fail
