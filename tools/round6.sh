#!/bin/bash
# tools/round6.sh ID "needs to manifest": confirm a round-6 seeded change, store it as seeded/<ID>f, run it against its check, remove the sub-agent's worktree
id="$1"; needs="$2"; name="${id}f"
cd /verif
tools/confirm_seed.sh $id /tmp/seed6/out/$id $name | tail -4
if [ -d seeded/$name ]; then
  tools/mkmeta.py $name 6 "$needs" >/dev/null
  tools/seed_matrix.sh quick $name
  tools/mkmeta.py $name 6 "$needs" >/dev/null
fi
git -C /repo worktree remove --force /tmp/seed6/$id 2>/dev/null
