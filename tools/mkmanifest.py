#!/usr/bin/env python3
"""Regenerate MANIFEST.json from the table below (keeps it schema-valid at all times)."""
import json, os, sys
HERE = os.path.dirname(os.path.dirname(os.path.abspath(__file__)))
BASE = json.load(open("/root/.vp/BASELINE.json")) if os.path.exists("/root/.vp/BASELINE.json") else {}

CLAIMED = {
 # id: (technique, level text, level note, design ref)
 "C10": ("runtime monitor on parse_svg_path (all aliases) judged against an independent SVG 1.1 path-BNF parser; exhaustive short strings + token combinations + random/mutated strings, each also parsed in the other mode and again (call-history dependence); print->parse round-trip monitor",
         "Every call of the real parser made by the workload is judged by a wrapper against a reference recursive-descent parser of the SVG path BNF: exhaustive over all strings up to length 6/7 on a reduced alphabet and over number-form x separator combinations, random beyond. Held-on-observed, not a proof.",
         "Trusts the reference grammar implementation (self-tested, 150 lines) and Python float() for numeric values.", "3/C10"),
 "C09": ("runtime monitors (wrappers) on every SVGPath rewrite method, as_cmd_seq and the basic-shape as_path, judged by an independent path interpreter: same subpaths/start/end/closedness, control-point equality or Hausdorff + signed-area fallback, arc pieces checked in the unit-circle frame; exhaustive command sequences <=3/<=4 + random + special cases",
         "Every rewrite call the workload makes on the real SVGPath is compared with a reference interpretation of the path before and after. Exhaustive over all 20-command sequences up to length 3 (quick) / 4 (thorough) on a lattice; random beyond. Held-on-observed.",
         "Trusts ref/pathgeom.py + ref/curvecmp.py (self-tested). Zero-extent subpaths are not matched. One open known finding (standalone arcs_to_cubics followed by shorthand).", "3/C09"),
 "C11": ("runtime monitors and icontract postconditions on parse_svg_transform, Affine2D.{tostring,@,compose_ltr,map_point,inverse,rect_to_rect,decompose_*} judged with exact rational arithmetic, an independent transform-list BNF parser and the spec's viewport algorithm plus its defining consequences",
         "Each executed call is judged against exact-rational reference results over thousands of grammar-derived transform lists, structured matrices and rectangle pairs x all alignments. Evidence on executed calls, not a proof of the polynomial identities.",
         "Trusts ref/affine.py. Exceptions from decompositions on singular/ill-conditioned input are counted as rejected.", "3/C11"),
 "C12": ("runtime monitor on arc_to_cubic (all aliases) and on SVGPath.arcs_to_cubics: every produced cubic sampled at 33 points in the unit-circle frame of the reference ellipse (F.6.5/F.6.6), continuity, exact end point, monotone sweep, total angle",
         "Every arc conversion executed by the workload (log-uniform magnitudes 1e-3..1e5, all flags, too-small/exactly-fitting/zero/negative radii, coincident and nearly coincident end points, relative arcs in paths) is judged against the true ellipse. Held-on-observed.",
         "Trusts ref/pathgeom.arc_center; arcs with coordinate/radius ratio > 1e9 are out of domain.", "3/C12"),
 "C13": ("runtime monitors on svg_pathops._do_pathop/remove_overlaps and the shape-level union/intersection/difference/SVGPath.remove_overlaps: point-sampled winding-number oracle over reference-flattened operands, result checked under both nonzero and evenodd; wrong answers reproduced by a direct engine call are attributed to skia-pathops (known finding)",
         "Every boolean operation executed by the workload is judged at ~120 points against the set combination of the operands under their own rules. Held-on-observed; sub-band-width defects are invisible.",
         "Trusts the winding-number oracle (ref/pathgeom.py) and its 0.4% exclusion band; PathOpsError counts as rejected.", "3/C13"),
 "C18": ("runtime monitors on SVGShape.might_paint, SVGPath.remove_empty_subpaths (in the context of the whole path) and SVG.remove_unpainted_shapes/remove_empty_subpaths on generated documents, judged against a three-valued reference ground truth (interior disc under the fill rule / stroked segment of positive length)",
         "Every might_paint answer and every pruning step executed by the workload is compared with an independent ground truth; only a False on a definitely-painting shape (or a changed rendering after pruning) is a violation, over-approximation is permitted. Workload includes outlines at full float precision (as after a transform). Held-on-observed.",
         "Trusts ref/pathgeom.py winding numbers and the 0.5% clearance rule; sub-clearance slivers are 'unknown' and not judged.", "3/C18"),
 "C20": ("runtime monitor on svg_reuse.affine_between: every reported transform is applied exactly to the first outline (reference interpretation) and compared command for command with the second within the tolerance; completeness for exact translations and identity for identical shapes",
         "Every call made by the workload (exact images under 7 transform families, identical pairs, unrelated pairs, near-miss pairs 1.05-3x tolerance off, structure changes, basic shapes with arcs) is judged. Held-on-observed.",
         "Trusts reusemon.tokens/verify (independent of svg_reuse). None is never a violation except for exact translations.", "3/C20"),
 "C02": ("runtime monitoring of real topicosvg() conversions of generated structural documents; oracle = independent point-sampling SVG evaluator applied to source and output (ordered paint stacks equal outside a 0.4% band, uniform + edge-biased samples)",
         "Each conversion is judged at ~250 points by an independent implementation of the SVG rendering model (transforms, use, nested viewports, display). Held-on-observed: defects thinner than the band or on ungenerated geometry are invisible.",
         "Trusts ref/render.py and its semantic decisions (DESIGN.md 2.3.1); documents that raise are counted, not judged.", "3/C02"),
 "C03": ("same conversion monitor as C02 over documents with clipPaths; the reference evaluator implements clip regions (union of children under clip-rule, clipPath/child transforms, nested clip-path, user space of the referencing element incl. use translate); stacks equal outside the band of every involved edge; no clip-path left",
         "Each conversion is judged at ~250 points; counters prove that clips decided thousands of retained points and that rule-sensitive (nonzero != evenodd) points were present. Held-on-observed.",
         "Trusts ref/render.py; clip-rule inheritance, transform+clip-path on one clipPath and clipPathUnits are not generated (scope decisions).", "3/C03"),
 "C04": ("conversion monitor with a three-valued reference model of the ideal SVG stroke region (evaluated in the shape's local coordinate system: perpendicular foot inside an on-dash with margins, miter/cap reach for 'definitely outside', engine arclength-drift margin); composited colours of source and output compared at retained points; deviations reproduced by a direct skia-pathops stroke at tight curvature are attributed to the engine (known finding)",
         "Each conversion of a generated stroked document is judged at ~250 points, of which the definitely-inside/outside ones are retained. The region model knows join shapes (round: outer sector, bevel: triangle, miter: within the limit) and cap shapes; dash ends, the seam of closed dashed subpaths and ties at path ends have uncertain zones of width ~0.8 where nothing is claimed. Feature floors are counted on judged documents. Held-on-observed.",
         "Trusts ref/stroke.py (delta 0.4 local units + band). Scope as stated: own opacity 1 or a single visible piece.", "3/C04"),
 "C05": ("conversion monitor comparing the composited RGBA (reference cascade + group-opacity compositing) of source and output at retained points; plus one structural clause (no output path keeps a separate fill-/stroke-opacity); known-finding classes are recognised by simulating their mechanism in the reference model and requiring the output to match the simulation everywhere sampled",
         "Each conversion of a generated cascade document (attributes, styles, both; root/group/use/shape level; translucent overlapping groups) is judged at ~250 points within 4e-3. Held-on-observed.",
         "Trusts ref/cascade.py and the compositing in ref/render.py; inherit/currentColor not generated.", "3/C05"),
 "C06": ("conversion monitor comparing the colour the reference gradient model assigns in the source with the colour of the converted document at retained interior points; output gradients checked for self-containment",
         "Each conversion of a generated gradient document (both units, percentages, transforms, spread methods, focal points, href chains, shared gradients under one transform) is judged at ~250 points within 6e-3. Held-on-observed.",
         "Trusts ref/gradient.py. Degenerate bounding boxes and focal points outside the circle are not generated.", "3/C06"),
 "C01": ("conversion monitor: every normal return of the real topicosvg() (library and CLI subprocess) is validated by an independent grammar validator over a stdlib XML parse that keeps comments/PIs; differential rule for drop_unsupported; a stage recorder on remove_unpainted_shapes attributes the known late-pruning finding",
         "Thousands of generated mixed documents x ndigits 0..6 x allow_text x drop_unsupported, the tests/ corpus under all option combinations and a CLI slice are validated clause by clause. Held-on-observed.",
         "Trusts ref/picogrammar.py as the statement of the README grammar; exceptions other than under drop_unsupported belong to C17.", "3/C01"),
 "C07": ("conversion monitor over recorded histories out1=convert(doc), out2=convert(out1), out3=convert(out2): byte equality and empty checkpicosvg; known mechanisms (late pruning, defs insertion order) recognised by predicates over the recorded pipeline stage and the diff",
         "Generated mixed and cleanup-ordering documents and the tests/ corpus at ndigits 0,1,3,6 are converted three times. Held-on-observed.",
         "Byte comparison of SVG.tostring(); first-pass exceptions are not judged.", "3/C07"),
 "C08": ("conversion monitor: ids unique, every url(#) resolves to a gradient in defs, every gradient used - checked on each converted document from sharing-heavy generated sources (a stop at the library's own final gate with a reuses-id report on a source with unique ids counts as an introduced duplicate); stage recorder attributes orphaned gradients to late pruning",
         "Documents with shared ids, many instances, stroked id'd shapes, shared gradients and colliding generated names are converted and their reference graph checked. Held-on-observed.",
         "Only sources whose references resolve are generated.", "3/C08"),
 "C14": ("differential conversion monitor over pairs (D, N(D)) with generated noise insertion at arbitrary tree positions and noise removal on real files; outputs compared by a canonical form that abstracts gradient ids (by content), defs order and 3e-5 relative numeric slack; both-raise counts as equal",
         "Each pair is converted by the real code (default options, and 45% of the pairs under drop_unsupported / allow_text / both) and compared. Held-on-observed.",
         "Trusts ref/xmlcanon.equivalent; numeric slack widened from 1.5e-6 to 3e-5 because rounding order (not noise handling) legitimately differs, amplified by bounding-box scales (Corrections log).", "3/C14"),
 "C19": ("runtime monitors on SVG.clip_to_viewbox, incl. on objects whose viewBox was edited in place after queries, and on the output of the CLI --clip_to_viewbox subprocess (rendering of input vs output by the reference evaluator: unchanged inside, empty outside, band around shape edges and the viewBox border) on SVGShape/SVG.bounding_box (analytic extrema: containment and tightness on all four sides) and on Rect.intersection/Rect.union (interval arithmetic); wrong clip results are attributed to the engine only if a direct skia-pathops call reproduces them at the witness point",
         "picosvg documents produced by converting generated sources with random viewBox origins/sizes are clipped and judged at ~270 points incl. border/corner-biased ones; boxes of thousands of curved shapes are judged. Held-on-observed.",
         "Trusts ref/render.py and ref/pathgeom.tight_bbox; slack 3e-5*(1+|coord|) for Skia float32.", "3/C19"),
 "C16": ("offline checker over an append-only event log written by child interpreters: (hash seed, batch, position, document, options) -> sha256(output)|exception; documents converted alone in fresh processes under 5 PYTHONHASHSEED values and in long-lived processes in random batch permutations with duplicates; every (document, options) group must have exactly one outcome",
         "Hundreds of conversions of corpus and generated documents (incl. allow_text, gradients, strokes, raising documents) under varied hash seeds, process lifetimes and orders are recorded and grouped. Held-on-observed.",
         "sha256 of SVG.tostring(); exception outcomes compared by type and message prefix.", "3/C16"),
 "C17": ("one fresh interpreter per adversarial document under sys.monitoring logical step counting (PY_START + backward JUMP in picosvg code) with a budget linear in the reference-expanded size, under strace -f -e trace=openat,connect with planted canary files/addresses, plus a wall-clock backstop whose firing alone is inconclusive; returned documents validated against the C01 grammar; per-class reach floors from call counts",
         "Cyclic use/clip-path/gradient references (incl. chains leading into cycles; xlink:href, SVG 2 plain href and mixed spellings), dangling references, malformed numbers, unsupported elements, deep nesting, wide acyclic use DAGs and DOCTYPE/entity attacks are each run to an outcome in {returned, raised, budget, killed}. Bounded-progress restatement of liveness; held-on-observed.",
         "Liveness restated as steps <= 60000*(expanded elements+20)+4e6; trusts strace for file/socket visibility.", "3/C17"),
 "C15": ("history + executable model: each operation history is run on live objects with no observation in between and compared with a shadow run that serialises and re-parses before every step and applies the in-place form of each step (canonical XML, exception step/type); copy-mode steps are checked for receiver immutability on freshly re-executed runs; in-place steps must return the receiver; answers of the read-only queries (shapes, bounding_box, view_box, checkpicosvg, tolerance) must agree between live object and re-parsed document; divergences are attributed to the shortest diverging prefix",
         "All histories of length <= 2 over 51 steps on six documents (quick), all of length 3 on two documents plus random histories of length 4-8 on the corpus (thorough). Exhaustive on the enumerated sub-space, held-on-observed beyond.",
         "The model is fromstring(tostring()) between steps; canonical XML = infoset equality.", "3/C15"),
}
NOT_YET = "check not built yet in this session (build in progress; see DESIGN.md section 8 for the construction order)"

def main():
    props = [json.loads(l) for l in open(os.path.join(HERE, "properties.jsonl"))]
    checks, na = [], []
    for p in props:
        pid = p["id"]
        if pid in CLAIMED:
            tech, text, note, ref = CLAIMED[pid]
            checks.append({
                "property_id": pid,
                "quick_cmd": f"./check {pid} --tier quick",
                "thorough_cmd": f"./check {pid} --tier thorough",
                "evidence_file": f"evidence/{pid}.json",
                "replay_cmd_template": f"./check {pid} --replay {{path}}",
                "engine": "picomon",
                "level_claimed": {"category": "exploration", "text": text, "design_ref": ref},
                "level_note": note,
                "technique": tech,
            })
        else:
            na.append({"property_id": pid, "reason": NOT_YET})
    hooks_commits = []
    m = {
        "version": 1,
        "setup_cmd": "./setup.sh",
        "hooks": {
            "guard": "PICOSVG_VERIF",
            "enable": "checks set PICOSVG_VERIF=1 and import picosvg from $VERIF_REPO/src (default /repo/src) in fresh worker processes; pure Python, no build step. No guarded source hooks are present: all monitors are attached from the harness by wrapping module attributes and methods.",
            "baseline_off_cmd": "cd /repo && env -u PICOSVG_VERIF /venv/bin/python -m pytest -ra -q -p no:cacheprovider --timeout=900 --continue-on-collection-errors",
            "source_commits": hooks_commits,
            "add_only": True,
        },
        "engines": [
            {"name": "picomon", "path": "picomon/", "serves_properties": sorted(CLAIMED),
             "kind_free_text": "runtime monitors (wrappers/contracts on real picosvg functions), independent reference models, seeded workload generators, sys.monitoring reach accounting and step budgets, offline event-log checkers"},
        ],
        "checks": checks,
        "not_applicable": na,
        "notes": "Technique family: runtime monitoring. Exit 0 held / 1 violation / 2 inconclusive. Known findings ledger: known_findings.json. VERIF_SEED, VERIF_TIER, VERIF_REPO, VERIF_JOBS honoured.",
    }
    if not na:
        del m["not_applicable"]
    json.dump(m, open(os.path.join(HERE, "MANIFEST.json"), "w"), indent=1)
    try:
        sys.path.append(os.path.join(HERE, ".deps"))
        import jsonschema
        jsonschema.validate(m, json.load(open("/root/.vp/MANIFEST.schema.json")))
        print("MANIFEST.json valid;", len(checks), "checks,", len(na), "not claimed")
    except ImportError:
        print("written (jsonschema not available)")

if __name__ == "__main__":
    main()
