#!/usr/bin/env python3
"""Regenerate MANIFEST.json from the table below (keeps it schema-valid at all times)."""
import json, os, sys
HERE = os.path.dirname(os.path.dirname(os.path.abspath(__file__)))
BASE = json.load(open("/root/.vp/BASELINE.json")) if os.path.exists("/root/.vp/BASELINE.json") else {}

CLAIMED = {
 # id: (technique, level text, level note, design ref)
 "C10": ("runtime monitor on parse_svg_path (all aliases) judged against an independent SVG 1.1 path-BNF parser; exhaustive short strings + token combinations + random/mutated strings; print->parse round-trip monitor",
         "Every call of the real parser made by the workload is judged by a wrapper against a reference recursive-descent parser of the SVG path BNF: exhaustive over all strings up to length 6/7 on a reduced alphabet and over number-form x separator combinations, random beyond. Held-on-observed, not a proof.",
         "Trusts the reference grammar implementation (self-tested, 150 lines) and Python float() for numeric values.", "3/C10"),
}
NOT_YET = "check not built yet in this session (build in progress; see DESIGN.md section 8 for the construction order)"

def main():
    props = [json.loads(l) for l in open(os.path.join(HERE, "properties.jsonl"))]
    checks, na = [], []
    for p in props:
        pid = p["id"]
        if pid in CLAIMED:
            tech, text, note, ref = CLAIMED[pid]
            checks.append({
                "property_id": pid,
                "quick_cmd": f"./check {pid} --tier quick",
                "thorough_cmd": f"./check {pid} --tier thorough",
                "evidence_file": f"evidence/{pid}.json",
                "replay_cmd_template": f"./check {pid} --replay {{path}}",
                "engine": "picomon",
                "level_claimed": {"category": "exploration", "text": text, "design_ref": ref},
                "level_note": note,
                "technique": tech,
            })
        else:
            na.append({"property_id": pid, "reason": NOT_YET})
    hooks_commits = []
    m = {
        "version": 1,
        "setup_cmd": "./setup.sh",
        "hooks": {
            "guard": "PICOSVG_VERIF",
            "enable": "checks set PICOSVG_VERIF=1 and import picosvg from $VERIF_REPO/src (default /repo/src) in fresh worker processes; pure Python, no build step. No guarded source hooks are present: all monitors are attached from the harness by wrapping module attributes and methods.",
            "baseline_off_cmd": "cd /repo && env -u PICOSVG_VERIF /venv/bin/python -m pytest -ra -q -p no:cacheprovider --timeout=900 --continue-on-collection-errors",
            "source_commits": hooks_commits,
            "add_only": True,
        },
        "engines": [
            {"name": "picomon", "path": "picomon/", "serves_properties": sorted(CLAIMED),
             "kind_free_text": "runtime monitors (wrappers/contracts on real picosvg functions), independent reference models, seeded workload generators, sys.monitoring reach accounting and step budgets, offline event-log checkers"},
        ],
        "checks": checks,
        "not_applicable": na,
        "notes": "Technique family: runtime monitoring. Exit 0 held / 1 violation / 2 inconclusive. Known findings ledger: known_findings.json. VERIF_SEED, VERIF_TIER, VERIF_REPO, VERIF_JOBS honoured.",
    }
    if not na:
        del m["not_applicable"]
    json.dump(m, open(os.path.join(HERE, "MANIFEST.json"), "w"), indent=1)
    try:
        sys.path.append(os.path.join(HERE, ".deps"))
        import jsonschema
        jsonschema.validate(m, json.load(open("/root/.vp/MANIFEST.schema.json")))
        print("MANIFEST.json valid;", len(checks), "checks,", len(na), "not claimed")
    except ImportError:
        print("written (jsonschema not available)")

if __name__ == "__main__":
    main()
