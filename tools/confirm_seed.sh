#!/bin/bash
# tools/confirm_seed.sh <ID> [srcdir]: confirm a sub-agent's seeded change in a fresh scratch worktree of /repo HEAD
# (patch applies, 356 pass / same 5 fail, demo fails with it and passes without), then store it under seeded/<ID>/.
id="$1"; src="${2:-/tmp/seed/out/$id}"; name="${3:-$id}"
wt=/tmp/confirm_$$
git -C /repo worktree add -q --detach $wt HEAD || exit 3
trap "git -C /repo worktree remove --force $wt" EXIT
cd $wt
demo_clean=$(PYTHONPATH=$wt/src timeout 600 /venv/bin/python $src/demo.py 2>&1 | tail -3); rc_clean=${PIPESTATUS[0]}
PYTHONPATH=$wt/src timeout 600 /venv/bin/python $src/demo.py >/dev/null 2>&1; rc_clean=$?
git apply $src/patch.diff || { echo "PATCH DOES NOT APPLY"; exit 2; }
tests=$(PYTHONPATH=$wt/src /venv/bin/python -m pytest -q -p no:cacheprovider 2>&1 | tail -1)
failed=$(PYTHONPATH=$wt/src /venv/bin/python -m pytest -q -p no:cacheprovider 2>&1 | grep ^FAILED | sort | md5sum | cut -c1-8)
PYTHONPATH=$wt/src timeout 600 /venv/bin/python $src/demo.py >/tmp/demo_out_$$ 2>&1; rc_patched=$?
echo "$id: tests='$tests' failedset=$failed demo clean rc=$rc_clean patched rc=$rc_patched"
tail -2 /tmp/demo_out_$$ | cut -c1-300; rm -f /tmp/demo_out_$$
if [ "$rc_clean" = 0 ] && [ "$rc_patched" = 1 ] && echo "$tests" | grep -q "5 failed, 356 passed"; then
  mkdir -p /verif/seeded/$name
  cp $src/patch.diff $src/demo.py /verif/seeded/$name/
  [ -f $src/notes.md ] && cp $src/notes.md /verif/seeded/$name/notes.md
  echo "CONFIRMED -> seeded/$name"
else
  echo "NOT CONFIRMED"
fi
